------------------------------ MODULE FATerms -------------------------------
(***************************************************************************)
(* Generators of well-typed IR terms for spec->code replay (C04, C08):     *)
(* TLC enumerates / samples the terms, the driver builds each in the real  *)
(* package.  Terms are printed as nested tuples <<kind, operand, ...>>     *)
(* with leaves <<"sym", name>>, <<"num", literal>>, <<"named", name>>,     *)
(* <<"bool", b>> (literals are strings naming the number).                 *)
(*                                                                         *)
(*   Gen = "small"     every term with at most MaxOps operator nodes over  *)
(*                     the small leaf sets                                 *)
(*   Gen = "relop"     every comparison between two terms of ClassReps     *)
(*                     (representatives of the sign/finiteness classes the *)
(*                     rewriter's inference distinguishes)                 *)
(*   Gen = "rules"     one template per rule left-hand side of the         *)
(*                     rewriter, metavariables ranging over small sets     *)
(*   Gen = "random"    NumRandom random terms of depth <= MaxDepth         *)
(*   Gen = "ext"       the rest of the quantifier: complex values (complex, *)
(*                     real, imag, conjugate, arithmetic on complex terms   *)
(*                     and constants), up/downcast chains, lists/items,     *)
(*                     kinds with point rules (log 1, log1p 0, ...), hypot, *)
(*                     is_finite.  Extra leaves: <<"sym", "z"/"w">> complex *)
(*                     symbols, <<"cnum", lit>> complex constant like z,    *)
(*                     <<"numz", lit>> real literal with a complex like,    *)
(*                     <<"idx", i>> a Python int index, <<"idxc", i>> an    *)
(*                     integer constant index                               *)
(*   Gen = "extrandom" NumRandom random terms over the extended kinds      *)
(***************************************************************************)
EXTENDS Naturals, Sequences, FiniteSets, TLC

CONSTANTS Gen, MaxOps, NumRandom, MaxDepth

Sym(n) == <<"sym", n>>
Num(s) == <<"num", s>>
Named(n) == <<"named", n>>
BoolC(b) == <<"bool", b>>
Op1(k, a) == <<k, a>>
Op2(k, a, b) == <<k, a, b>>
Op3(k, a, b, c) == <<k, a, b, c>>

R1Kinds == {"negative", "absolute", "square", "sqrt", "sign"}
R2Kinds == {"add", "subtract", "multiply", "divide", "minimum", "maximum"}
RelKinds == {"lt", "le", "gt", "ge", "eq", "ne"}
B2Kinds == {"logical_and", "logical_or", "logical_xor"}

(*************************** "small": bounded exhaustive ********************)
R0 == {Sym("x"), Sym("y"), Num("0"), Num("1")}
B0 == {Sym("b"), BoolC(TRUE)}

\* terms with exactly n operator nodes, by result type
RECURSIVE RT(_), BT(_)
RT(n) == IF n = 0 THEN R0
         ELSE {Op1(k, a) : k \in R1Kinds, a \in RT(n - 1)}
              \cup UNION {{Op2(k, a, b) : k \in R2Kinds, a \in RT(i), b \in RT(n - 1 - i)} : i \in 0..(n - 1)}
              \cup UNION {UNION {{Op3("select", c, a, b) : c \in BT(i), a \in RT(j), b \in RT(n - 1 - i - j)}
                                 : j \in 0..(n - 1 - i)} : i \in 0..(n - 1)}
BT(n) == IF n = 0 THEN B0
         ELSE {Op1("logical_not", a) : a \in BT(n - 1)}
              \cup UNION {{Op2(k, a, b) : k \in RelKinds, a \in RT(i), b \in RT(n - 1 - i)} : i \in 0..(n - 1)}
              \cup UNION {{Op2(k, a, b) : k \in B2Kinds, a \in BT(i), b \in BT(n - 1 - i)} : i \in 0..(n - 1)}
              \cup UNION {UNION {{Op3("select", c, a, b) : c \in BT(i), a \in BT(j), b \in BT(n - 1 - i - j)}
                                 : j \in 0..(n - 1 - i)} : i \in 0..(n - 1)}
SmallTerms == UNION {RT(n) \cup BT(n) : n \in 1..MaxOps}

(*************************** "relop": class representatives *****************)
X == Sym("x")
Y == Sym("y")
AbsX == Op1("absolute", X)
ClassReps ==
  { X, AbsX, Op1("negative", AbsX), Op2("add", AbsX, Num("1")), Op1("negative", Op2("add", AbsX, Num("1"))),
    Op1("square", Y), Op2("multiply", X, X), Op1("sqrt", AbsX), Op2("multiply", AbsX, Op1("absolute", Y)),
    Op2("subtract", Op1("negative", AbsX), Num("1")), Op2("divide", AbsX, Op2("add", Op1("square", Y), Num("1"))),
    Op2("multiply", Op1("negative", AbsX), Op2("add", AbsX, Num("2"))),
    Num("0"), Num("1"), Num("-1"), Num("2"), Num("1/2"), Num("-0.0"),
    Named("largest"), Named("smallest"), Named("smallest_subnormal"), Named("eps"), Named("posinf"), Named("neginf"),
    Op1("negative", Named("largest")), Op2("add", X, Y), Op1("sign", X), Op2("minimum", AbsX, Num("1")),
    Op2("maximum", X, Num("0")) }
RelopTerms == {Op2(k, a, b) : k \in RelKinds, a \in ClassReps, b \in ClassReps}

(*************************** "rules": rule templates ***********************)
P0 == {Op2("lt", X, Y), Op2("le", X, Num("0")), Sym("b"), Op2("eq", X, Y)}
Q0 == {Op2("ge", Y, Num("1")), Sym("c"), Op2("ne", X, Y)}
A0 == {X, Y, Num("0"), AbsX, Num("1")}
Not(p) == Op1("logical_not", p)
And(p, q) == Op2("logical_and", p, q)
Or(p, q) == Op2("logical_or", p, q)
Sel(c, a, b) == Op3("select", c, a, b)
Nums == {Num("0"), Num("1"), Num("-1"), Num("2"), Num("3"), Num("4"), Num("1/2"), Num("0.1"), Num("0.2"), Num("-0.0"),
         Num("1e300"), Num("1e-300"), Num("int:3"), Num("int:0"), Num("int:1")}
\* constants given as NumPy scalars of ANOTHER width than the expression (the value is then converted to the expression's
\* type before anything is folded): closed arithmetic sub-terms of two / three of them, alone and under a symbol; and
\* division by constants at the edges of the range (reciprocals that overflow / underflow)
NpNums == {Num("np64:0.1"), Num("np64:0.7"), Num("np64:sqrt2"), Num("np64:log2"), Num("np32:third"), Num("np32:seventh"), Num("0.1")}
EdgeDivs == {Num("pow2:minsub"), Num("pow2:minsub2"), Num("pow2:minnormal"), Num("pow2:max"), Num("pow2:-minsub"), Num("1e300"), Num("1e-300")}
NpTerms ==
     {Op2(k, a, b) : k \in {"multiply", "add", "subtract", "divide"}, a \in NpNums, b \in NpNums}
  \cup {Op2("multiply", Op2(k, a, b), X) : k \in {"multiply", "add"}, a \in NpNums, b \in NpNums}
  \cup {Op2("add", X, Op2("multiply", a, Op2("multiply", b, c))) : a \in {Num("np64:0.1")}, b \in NpNums, c \in {Num("np64:sqrt2"), Num("np32:third")}}
  \cup {Op2("divide", x, d) : x \in {X, Num("pow2:minsub"), Num("1"), Op2("multiply", X, Y)}, d \in EdgeDivs}
RuleTerms0 ==
  \* select rules
     {Sel(Op2(k, a, b), x, y) : k \in RelKinds, a \in {X, Num("0")}, b \in {Y, Num("1")}, x \in {X, Num("2")}, y \in {Y, AbsX}}
  \cup {Sel(Op2("eq", x, y), x, y) : x \in A0, y \in A0} \cup {Sel(Op2("ne", x, y), x, y) : x \in A0, y \in A0}
  \cup {Sel(Op2("eq", x, y), y, x) : x \in A0, y \in A0}
  \cup {Sel(c, x, x) : c \in P0, x \in A0} \cup {Sel(BoolC(v), x, y) : v \in BOOLEAN, x \in A0, y \in A0}
  \cup {Sel(c, Sel(c1, a, y), y) : c \in P0, c1 \in Q0, a \in {X, Num("0")}, y \in {Y, Num("1")}}
  \cup {Sel(c, Sel(c1, y, a), y) : c \in P0, c1 \in Q0, a \in {X, Num("0")}, y \in {Y, Num("1")}}
  \cup {Sel(c, y, Sel(c1, a, y)) : c \in P0, c1 \in Q0, a \in {X, Num("0")}, y \in {Y, Num("1")}}
  \cup {Sel(c, y, Sel(c1, y, a)) : c \in P0, c1 \in Q0, a \in {X, Num("0")}, y \in {Y, Num("1")}}
  \cup {Sel(c, Sel(c1, a, b), y) : c \in P0, c1 \in Q0, a \in {X}, b \in {Num("0"), AbsX}, y \in {Y, Num("1")}}
  \cup {Sel(c, Sel(c, a, b), y) : c \in P0, a \in {X}, b \in {Num("0")}, y \in {Y}}
  \cup {Sel(c, Sel(Not(c), a, y), y) : c \in P0, a \in {X}, y \in {Y}}
  \* logical rules
  \cup {And(p, And(p, q)) : p \in P0, q \in Q0} \cup {And(q, And(p, q)) : p \in P0, q \in Q0}
  \cup {And(And(p, q), p) : p \in P0, q \in Q0} \cup {And(And(p, q), q) : p \in P0, q \in Q0}
  \cup {And(p, p) : p \in P0} \cup {Or(p, p) : p \in P0} \cup {And(p, q) : p \in P0, q \in Q0} \cup {Or(q, p) : p \in P0, q \in Q0}
  \cup {And(p, BoolC(v)) : p \in P0, v \in BOOLEAN} \cup {Or(BoolC(v), p) : p \in P0, v \in BOOLEAN}
  \cup {Or(And(Not(p), q), p) : p \in P0, q \in Q0} \cup {Or(p, And(Not(p), q)) : p \in P0, q \in Q0}
  \cup {Or(And(q, Not(p)), p) : p \in P0, q \in Q0} \cup {Or(And(p, q), Not(p)) : p \in P0, q \in Q0}
  \cup {Or(And(p, q), And(Not(p), q)) : p \in P0, q \in Q0}
  \cup {Not(Op2(k, a, b)) : k \in RelKinds, a \in A0, b \in A0} \cup {Not(Not(p)) : p \in P0} \cup {Not(BoolC(v)) : v \in BOOLEAN}
  \cup {Op2("logical_xor", p, q) : p \in P0, q \in Q0}
  \* comparisons with a select operand, identical operands
  \cup {Op2(k, Sel(c, a, b), y) : k \in RelKinds, c \in {Op2("lt", X, Y), Sym("b")}, a \in {X, Num("0")}, b \in {Y, Num("1")}, y \in {Num("0"), X}}
  \cup {Op2(k, y, Sel(c, a, b)) : k \in RelKinds, c \in {Op2("lt", X, Y), Sym("b")}, a \in {X, Num("0")}, b \in {Y, Num("1")}, y \in {Num("0"), X}}
  \cup {Op2(k, a, a) : k \in RelKinds, a \in A0}
  \* unary idempotence / involution
  \cup {Op1(k, Op1(k, a)) : k \in R1Kinds, a \in {X, AbsX, Num("4")}}
  \cup {Op1("absolute", Op1("negative", X)), Op1("negative", Op1("absolute", X)), Op1("sign", Op1("absolute", X))}
  \* identities and constant folding
  \cup {Op2(k, a, n) : k \in R2Kinds, a \in {X, AbsX}, n \in Nums} \cup {Op2(k, n, a) : k \in R2Kinds, a \in {X, AbsX}, n \in Nums}
  \cup {Op2(k, m, n) : k \in R2Kinds \cup RelKinds, m \in Nums, n \in Nums}
  \cup {Op1(k, n) : k \in R1Kinds, n \in Nums}
  \cup {Op2(k, Op2("add", Num("0.1"), Num("0.2")), X) : k \in {"multiply", "lt"}}

(*************************** "random": sampled deeper terms ****************)
RLeaves == R0 \cup {Num("2"), Num("-1"), Num("1/2"), Named("largest"), Named("smallest"), Named("eps"), Named("posinf"), Named("neginf")}
BLeaves == B0 \cup {BoolC(FALSE), Sym("c")}
RECURSIVE RandR(_), RandB(_)
RandR(d) ==
  IF d = 0 THEN RandomElement(RLeaves)
  ELSE LET c == RandomElement(1..10)
       IN  CASE c <= 1 -> RandomElement(RLeaves)
             [] c <= 3 -> Op1(RandomElement(R1Kinds), RandR(d - 1))
             [] c <= 7 -> Op2(RandomElement(R2Kinds), RandR(d - 1), RandR(d - 1))
             [] OTHER -> Op3("select", RandB(d - 1), RandR(d - 1), RandR(d - 1))
RandB(d) ==
  IF d = 0 THEN RandomElement(BLeaves)
  ELSE LET c == RandomElement(1..10)
       IN  CASE c <= 1 -> RandomElement(BLeaves)
             [] c <= 5 -> Op2(RandomElement(RelKinds), RandR(d - 1), RandR(d - 1))
             [] c <= 7 -> Op2(RandomElement(B2Kinds), RandB(d - 1), RandB(d - 1))
             [] c <= 8 -> Op1("logical_not", RandB(d - 1))
             [] OTHER -> Op3("select", RandB(d - 1), RandB(d - 1), RandB(d - 1))


(*************************** "ext": complex, casts, lists, point rules ******)
Z == Sym("z")
W == Sym("w")
Cx(a, b) == Op2("complex", a, b)
Conj(a) == Op1("conjugate", a)
CNum(s) == <<"cnum", s>>
NumZ(s) == <<"numz", s>>
Up(a) == Op1("upcast", a)
Down(a) == Op1("downcast", a)
List3(a, b, c) == <<"list", a, b, c>>
Item(l, i) == Op2("item", l, i)
CLeaves == {Z, W, Cx(X, Y), Cx(X, Num("0")), Cx(Num("1"), Y), CNum("1+2j"), CNum("3+4j"), CNum("0"), CNum("1j")}
CT1 == CLeaves \cup {Conj(Z), Conj(Cx(X, Y)), Op1("negative", Z), Op2("add", Z, W), Op2("subtract", Z, Cx(X, Y)),
                     Op2("multiply", Z, W), Op2("add", Z, X), Op3("select", Sym("b"), Z, W), Conj(Conj(Z))}
CU == {"conjugate", "real", "imag", "negative", "absolute", "square", "positive"}
PointK == {"log", "log2", "log10", "log1p", "exp", "expm1", "sin", "cos", "sinh", "cosh", "tan", "tanh", "asin", "acos",
           "asinh", "acosh", "atan", "atanh", "sqrt"}
R3 == {X, AbsX, Op2("add", X, Y), Op2("multiply", X, Y), Num("1"), Num("1/2"), Op1("sqrt", AbsX)}
ExtTerms ==
  \* complex structure
     {Op1(k, c) : k \in CU, c \in CT1}
  \cup {Op1(k, Op1(k2, c)) : k \in {"conjugate", "real", "imag", "negative"}, k2 \in {"conjugate", "negative"}, c \in {Z, Cx(X, Y), CNum("1+2j")}}
  \cup {Cx(Op1("real", c), Op1("imag", d)) : c \in {Z, Cx(X, Y)}, d \in {Z, W, Cx(X, Y)}}
  \cup {Cx(Op1("imag", Z), Op1("real", Z)), Cx(Op1("negative", X), Op1("negative", Y)), Cx(Num("0"), Num("0"))}
  \cup {Op2(k, c, d) : k \in {"add", "subtract", "multiply", "divide"}, c \in CLeaves \cup {NumZ("0"), NumZ("1"), Conj(Z)},
                       d \in {Z, W, CNum("1+2j"), CNum("0"), NumZ("0"), NumZ("1"), NumZ("2"), X, Num("0"), Num("1")}}
  \cup {Op2(k, c, d) : k \in {"eq", "ne"}, c \in {Z, CNum("1+2j"), Cx(X, Y)}, d \in {Z, W, CNum("1+2j"), Conj(Z)}}
  \cup {Sel(p, c, d) : p \in {Sym("b"), Op2("lt", X, Y), BoolC(TRUE)}, c \in {Z, Conj(Z), CNum("1j")}, d \in {Z, W, Conj(Z)}}
  \cup {Op1(k, Sel(p, c, d)) : k \in {"real", "imag", "conjugate"}, p \in {Sym("b")}, c \in {Z, Cx(X, Y)}, d \in {W, Cx(Y, X)}}
  \* casts
  \cup {Up(Down(a)) : a \in R3} \cup {Down(Up(a)) : a \in R3} \cup {Up(Up(Down(Down(a)))) : a \in {X}}
  \cup {Down(Down(Up(Up(a)))) : a \in {X}} \cup {Up(Down(Up(a))) : a \in {X, AbsX}} \cup {Down(Up(Down(a))) : a \in {X, AbsX}}
  \cup {Down(Op2(k, Up(a), Up(b))) : k \in {"add", "multiply", "subtract", "divide"}, a \in {X, Num("1")}, b \in {Y, X}}
  \cup {Up(Op2(k, Down(a), Down(b))) : k \in {"add", "multiply"}, a \in {X}, b \in {Y, X}}
  \cup {Down(Op1(k, Up(a))) : k \in {"square", "sqrt", "absolute", "negative"}, a \in {X, AbsX}}
  \cup {Down(Op1("square", Up(Down(Op1("square", Up(X)))))), Op2("lt", Up(X), Up(Y)), Op2("lt", Up(Down(X)), Y),
        Sel(Op2("lt", X, Y), Up(Down(X)), Y), Op2("add", Up(Down(X)), Down(Up(Y)))}
  \cup {Up(n) : n \in {Num("1"), Num("0.1"), Named("largest"), Named("eps")}} \cup {Down(n) : n \in {Num("1"), Num("0.1"), Named("largest"), Named("smallest")}}
  \* lists and items
  \cup {Item(List3(a, b, c), i) : a \in {X, Num("0")}, b \in {Y, AbsX}, c \in {Op2("add", X, Y)}, i \in {<<"idx", 0>>, <<"idx", 1>>, <<"idx", 2>>, <<"idxc", 1>>}}
  \cup {Item(List3(Z, X, Sym("b")), i) : i \in {<<"idx", 0>>, <<"idx", 1>>, <<"idx", 2>>}}
  \cup {Op2("add", Item(List3(X, Y, Num("1")), <<"idx", 0>>), Item(List3(X, Y, Num("1")), <<"idx", 2>>)),
        Item(List3(List3(X, Y, Num("1")), X, Y), <<"idx", 0>>), Item(Item(List3(List3(X, Y, Num("1")), X, Y), <<"idx", 0>>), <<"idx", 1>>),
        List3(Op2("add", X, Num("0")), Op1("negative", Op1("negative", Y)), Sel(BoolC(TRUE), X, Y)),
        Sel(Sym("b"), Item(List3(X, Y, Num("1")), <<"idx", 1>>), X)}
  \* kinds with point rules
  \cup {Op1(k, n) : k \in PointK, n \in {Num("0"), Num("1"), Num("2"), Num("-0.0"), Num("int:1"), Num("int:0"), X}}
  \cup {Op2(k, Op1(p, n), X) : k \in {"add", "multiply"}, p \in {"log", "log2", "log10", "log1p"}, n \in {Num("0"), Num("1")}}
  \cup {Op2("hypot", a, b) : a \in {Num("3"), X, Num("0")}, b \in {Num("4"), Y, Num("0")}}
  \cup {Op1("is_finite", a) : a \in {X, Num("1"), Named("posinf"), Named("largest"), Op2("add", X, Y)}}
  \cup {Sel(Op1("is_finite", X), X, Y), Not(Op1("is_finite", X))}
  \* comparisons and selects over every remaining real-valued kind (no semantics in FAIR: the rewrite must
  \* terminate without raising)
  \cup {Op2(k, Op2(b, X, Y), a) : k \in RelKinds, b \in {"atan2", "copysign", "hypot", "pow", "remainder", "floor_divide"}, a \in {X, Num("0")}}
  \cup {Op2(k, a, Op1(u, X)) : k \in RelKinds, u \in {"round", "truncate", "floor", "ceil", "asin_acos_kernel", "exp2", "tan", "atan"}, a \in {Y, Num("1")}}
  \cup {Sel(Op2("lt", Op2("copysign", X, Y), Num("0")), Op1("round", X), Op2("atan2", Y, X)), Op1("absolute", Op2("copysign", X, Y)),
        Op1("negative", Op1("negative", Op1("truncate", X))), Op2("add", Op2("atan2", X, Y), Num("0"))}

CRLeaves == RLeaves
RECURSIVE RandC(_), RandXR(_)
RandC(d) ==
  IF d = 0 THEN RandomElement(CLeaves)
  ELSE LET c == RandomElement(1..10)
       IN  CASE c <= 2 -> RandomElement(CLeaves)
             [] c <= 4 -> Op1(RandomElement({"conjugate", "negative", "positive"}), RandC(d - 1))
             [] c <= 7 -> Op2(RandomElement({"add", "subtract", "multiply"}), RandC(d - 1), RandC(d - 1))
             [] c <= 8 -> Cx(RandXR(d - 1), RandXR(d - 1))
             [] c <= 9 -> Op2(RandomElement({"add", "subtract", "multiply"}), RandC(d - 1), RandXR(d - 1))
             [] OTHER -> Op3("select", RandB(d - 1), RandC(d - 1), RandC(d - 1))
RandXR(d) ==
  IF d = 0 THEN RandomElement(CRLeaves)
  ELSE LET c == RandomElement(1..12)
       IN  CASE c <= 1 -> RandomElement(CRLeaves)
             [] c <= 3 -> Op1(RandomElement({"real", "imag", "absolute"}), RandC(d - 1))
             [] c <= 5 -> Op1(RandomElement(R1Kinds), RandXR(d - 1))
             [] c <= 7 -> Op2(RandomElement(R2Kinds), RandXR(d - 1), RandXR(d - 1))
             [] c <= 8 -> Up(Down(RandXR(d - 1)))
             [] c <= 9 -> Down(Up(RandXR(d - 1)))
             [] c <= 10 -> Down(Op2(RandomElement({"add", "multiply"}), Up(RandXR(d - 1)), Up(RandXR(d - 1))))
             [] c <= 11 -> Item(List3(RandXR(d - 1), RandXR(d - 1), RandXR(d - 1)), <<"idx", RandomElement(0..2)>>)
             [] OTHER -> Op3("select", RandB(d - 1), RandXR(d - 1), RandXR(d - 1))

(*************************** emission ***************************************)
VARIABLE n
RuleTerms == NpTerms \cup RuleTerms0
TermSet == CASE Gen = "small" -> SmallTerms [] Gen = "relop" -> RelopTerms [] Gen = "rules" -> RuleTerms
             [] Gen = "ext" -> ExtTerms [] OTHER -> {}
IsRandom == Gen \in {"random", "extrandom"}
Init == n = 0
Next == \/ /\ ~IsRandom /\ n = 0 /\ n' = 1
           /\ \A t \in TermSet : PrintT(<<"H", t>>)
        \/ /\ Gen = "random" /\ n < NumRandom /\ n' = n + 1
           /\ \E d \in {RandomElement(2..MaxDepth)}, w \in {RandomElement(1..3)} :
                  PrintT(<<"H", IF w = 1 THEN RandB(d) ELSE RandR(d)>>)
        \/ /\ Gen = "extrandom" /\ n < NumRandom /\ n' = n + 1
           /\ \E d \in {RandomElement(2..MaxDepth)}, w \in {RandomElement(1..3)} :
                  PrintT(<<"H", IF w = 1 THEN RandC(d) ELSE RandXR(d)>>)
Spec == Init /\ [][Next]_n
=============================================================================
