\* Gen in {"attach", "compare", "native", "share"}: the driver substitutes the generator to run
SPECIFICATION Spec
CONSTANTS
  Gen = "attach"
CHECK_DEADLOCK FALSE
