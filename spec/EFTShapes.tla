----------------------------- MODULE EFTShapes ------------------------------
(***************************************************************************)
(* U2 for C10: TLC enumerates the discrete operand SHAPES; the driver      *)
(* (harness/props/c10.py) concretises each shape in the named format from  *)
(* the seed and calls every copy / option combination of the error-free    *)
(* transformations on it.  One state per shape, printed as <<"H", shape>>. *)
(*                                                                         *)
(*  <<"sum", fmt, gap, px, py, mag, sx, sy>>                               *)
(*      gap = exponent(x) - exponent(y) in -(p+2)..(p+2) (quick: the edge  *)
(*      gaps 0, 1, 2, s-1, s, s+1, p-2 .. p+2 and their negatives);        *)
(*      px, py = mantissa patterns; mag = magnitude class of the operand   *)
(*      that anchors the pair; sx, sy = sign bits                          *)
(*  <<"prod", fmt, magx, magy, px, py, sx, sy>>                            *)
(*  <<"proddense", fmt, magx, magy>>  many random-mantissa, random-sign     *)
(*      pairs drawn inside the two magnitude classes                       *)
(*  <<"split", fmt, mag, px, sx>>   mag may also be "binade": the driver   *)
(*      places the pattern in EVERY binade of the format (subnormal        *)
(*      positions included)                                                *)
(*  <<"sum3", fmt, gap1, gap2, px, sy, sz>>  exponent gaps x-y and y-z     *)
(*                                                                         *)
(* Mantissa patterns (p bits, leading bit set; narrower in the subnormal   *)
(* range): pow2 = 2^k, pow2p = 2^k + 1ulp, pow2m = 2^k - 1ulp (all ones in *)
(* the binade below), ones = all ones, half = random high part, then 1 and *)
(* zeros in the low s bits (a tie of the splitter / of the sum when the    *)
(* gap is right), alt = 1010.., rand = drawn, onehalf = 1 + 2^-s (s + 1    *)
(* significant bits: one more than a half can hold), lowrand = 1, zeros,   *)
(* then drawn bits in the low p - s positions (just above a power of two). *)
(* Magnitude classes: sub (a subnormal binade, drawn), minnorm (2^emin),   *)
(* lownorm (one of the p lowest normal binades above 2^emin, drawn: where  *)
(* a down-scaled operand or an error term enters the subnormal range),     *)
(* anybin (any binade of the format, drawn: regions that are no boundary   *)
(* of the shipped code), clamp (drawn uniformly from the whole clamp region *)
(* (x_max, largest] of the splitter),                                      *)
(* one (2^0: the splitter's scaling switch), sqrtmax (exponent around      *)
(* emax/2: product overflow edge), xmax (the splitter's clamp threshold    *)
(* x_max: the pattern selects the offset in ulps), largestC (the edge      *)
(* where C*x overflows: largest/(2^s+1) and 2^(emax+1-s)), largest (top    *)
(* binade; "ones" is the largest finite number).                           *)
(***************************************************************************)
EXTENDS Naturals, Integers, Sequences, TLC
CONSTANT Tier
VARIABLE c

Quick == Tier = "quick"
Fmts == {"float16", "float32", "float64"}
P(fmt) == CASE fmt = "float16" -> 11 [] fmt = "float32" -> 24 [] fmt = "float64" -> 53
S(fmt) == (P(fmt) + 1) \div 2

Pats == {"pow2", "pow2p", "pow2m", "ones", "half", "alt", "rand", "onehalf", "lowrand"}
FewPats == IF Quick THEN {"pow2", "pow2m", "half", "rand", "onehalf"} ELSE Pats
Mags == {"sub", "minnorm", "lownorm", "one", "anybin", "sqrtmax", "xmax", "clamp", "largestC", "largest"}
Signs == IF Quick THEN {<<0, 0>>, <<0, 1>>} ELSE {<<0, 0>>, <<0, 1>>, <<1, 0>>, <<1, 1>>}

EdgeGaps(fmt) == LET p == P(fmt)
                     s == S(fmt)
                     m == {0, 1, 2, s - 1, s, s + 1, p - 2, p - 1, p, p + 1, p + 2}
                 IN  m \cup {0 - g : g \in m}
Gaps(fmt) == IF Quick THEN EdgeGaps(fmt) ELSE (0 - (P(fmt) + 2))..(P(fmt) + 2)

\* (built per format: one comprehension over the union of all gaps exceeds TLC's 10^6 element limit; the
\* initial predicate is a disjunction over the formats so that TLC never has to normalise one huge set)
SumOf(f) == {<<"sum", f, g, px, py, m, sg[1], sg[2]>> : g \in Gaps(f), px \in Pats, py \in FewPats, m \in Mags, sg \in Signs}
SumOK(t) == t[3] \in Gaps(t[2])

Prod == {<<"prod", f, mx, my, px, py, sg[1], sg[2]>> :
           f \in Fmts, mx \in Mags, my \in Mags, px \in Pats, py \in FewPats, sg \in Signs}

\* dense class pairs: the driver draws many random-mantissa pairs per (format, class, class)
ProdDense == {<<"proddense", f, mx, my>> : f \in Fmts, mx \in Mags, my \in Mags}

Split == {<<"split", f, m, px, sx>> : f \in Fmts, m \in Mags \cup {"binade"}, px \in Pats, sx \in {0, 1}}

Gaps3(fmt) == LET p == P(fmt) IN {0, 1, S(fmt), p - 1, p, p + 1, 2 * p}
Sum3 == {<<"sum3", f, g1, g2, px, sy, sz>> :
           f \in Fmts, g1 \in UNION {Gaps3(ff) : ff \in Fmts}, g2 \in UNION {Gaps3(ff) : ff \in Fmts},
           px \in {"pow2", "ones", "rand"}, sy \in {0, 1}, sz \in {0, 1}}
Sum3OK(t) == t[3] \in Gaps3(t[2]) /\ t[4] \in Gaps3(t[2])

Others == Prod \cup ProdDense \cup Split \cup {t \in Sum3 : Sum3OK(t)}

Init == \/ c \in SumOf("float16") \/ c \in SumOf("float32") \/ c \in SumOf("float64")
        \/ c \in Others
Next == UNCHANGED c
Spec == Init /\ [][Next]_c
Emit == PrintT(<<"H", c>>)
=============================================================================
