\* U1, toy format T4 = [p=4, emax=3, w=7]: all 128 bit patterns (one state each), pairwise
\* monotonicity over all finite pairs, all multiword chunk widths 1..4
SPECIFICATION Spec
CONSTANTS
  Fmt <- T4
INVARIANT OracleInv
INVARIANT ParserInv
INVARIANT FracInv
INVARIANT MultiwordInv
POSTCONDITION Done
CHECK_DEADLOCK FALSE
