\* U1 of C11, quick: T3 = [p = 3, emax = 3, w = 6]; every 61st triple (4298 of 262144) for sum3, muladd, every 251st (1045) for the 32 fma variants, every 4093rd quadruple (4100 of 16777216) for sum4, dot2
SPECIFICATION Spec
CONSTANTS
  Fmt = "T3"
  Ops = "multi"
  Stride3 = 61
  StrideF = 251
  Stride4 = 4093
  Off = 0
  XAdd <- TabAdd
  XMul <- TabMul
  XNeg <- TabNeg
  XAbs <- TabAbs
  XLt <- TabLt
  XLe <- TabLe
  XEq <- TabEq
  Val <- TabVal
  COne <- TabCOne
  C32 <- TabC32
  C98 <- TabC98
  C78 <- TabC78
  CQ <- TabCQ
  CP <- TabCP
  CQ13 <- TabCQ13
  CP13 <- TabCP13
  CSplitN <- TabCSplitN
  CSplitC <- TabCSplitC
  CSplitInvN <- TabCSplitInvN
  CXMax <- TabCXMax
  CLargest <- TabCLargest
  CNext <- TabCNext
INVARIANT Holds
CHECK_DEADLOCK FALSE
