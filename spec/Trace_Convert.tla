--------------------------- MODULE Trace_Convert ----------------------------
(***************************************************************************)
(* Validation of recorded conversions of the real functional_algorithms    *)
(* utilities against Convert.tla.  One ndjson line per INPUT float: the    *)
(* bit pattern x of format fmt and, for every conversion route the driver  *)
(* exercised on it, the intermediate object and the bit pattern that came  *)
(* back:                                                                   *)
(*   frac  [st, num, den, back]          float2fraction / fraction2float   *)
(*   bin   [st, s, back]                 float2bin / bin2float             *)
(*   mpf   <<[tag, st, prec, m, back]>>  float2mpf / mpf2float per context *)
(*   wl    <<[tag, st, wfmt, words, unbounded, prec, hasbm, bm, back]>>    *)
(*         mpf2expansion+expansion2mpf, mpf2multiword+multiword2mpf,       *)
(*         float2expansion+expansion2mpf, one record per configuration     *)
(* st is "ok" or the stage that did not return (fwd_raised, fwd_timeout,   *)
(* back_raised, back_timeout) or "back_skipped_empty".  tag is an opaque   *)
(* label of the configuration used only to name the failing clause.        *)
(* Nothing is decoded by the driver: all values are computed here.         *)
(***************************************************************************)
EXTENDS Convert, TraceKit, FiniteSets
VARIABLE l

\* one short line per failing clause (TLC wraps long values over several lines) and the number of
\* failing clauses of the event, so that the harness can tell that it has read them all
ReportEach(e, fails) ==
  IF fails = {} THEN TRUE
  ELSE /\ \A c \in fails : PrintT(<<"FAIL", e.id, {c}>>)
       /\ Note(e, Cardinality(fails))

Init == l = 1
Next == /\ l <= Len(Trace)
        /\ ReportEach(Trace[l], ConvFails(Trace[l]))
        /\ l' = l + 1
Spec == Init /\ [][Next]_l
=============================================================================
