\* simulation: 3 objects, all 45 requests, nesting <= 3 (run with -simulate -depth N)
SPECIFICATION Spec
CONSTANTS
  Objs <- MC_Objs3
  ReqSet <- MC_ReqAll
  InitRegs <- MC_InitRegs
  DesiredAt = "enter"
  MaxDepth = 3
  MaxLevel = 100
INVARIANT TypeOK
INVARIANT BalancedIsIdentity
INVARIANT NestIsComposition
CHECK_DEADLOCK FALSE
