SPECIFICATION TSpec
CONSTANTS
  Values = {}
  Symbols = {}
  Kinds = {}
  SignInKey = TRUE
  MaxSteps = 0
  MaxConst = 0
POSTCONDITION Consumed
CHECK_DEADLOCK FALSE
