----------------------------- MODULE MC_Convert ------------------------------
(***************************************************************************)
(* U1 for C13: exhaustive small-scope check over ALL bit patterns of a toy *)
(* IEEE format Fmt (MC_Convert.cfg: p=4, emax=3, w=7: 128 patterns;        *)
(* MC_Convert_t5.cfg: p=5, emax=7, w=9: 512 patterns).  One state per      *)
(* pattern (variable i), one action per class of pattern.                  *)
(*                                                                         *)
(*  OracleOK     IEEE.tla is coherent: RN(Val(x)) = x for every finite x   *)
(*               (either zero for -0), Val strictly monotone in Ord over   *)
(*               all pairs, NextUp/NextDown adjacent in value, FromOrd     *)
(*               inverts Ord, Cls total, RN of quarter points and of the   *)
(*               midpoint between neighbours (nearest, ties to even).      *)
(*  ParserOK     ParseBin inverts PrintBin, a TLA+ printer of exactly the  *)
(*               format float2bin emits ("0", "[-]1[.bits]p[+-]dec",       *)
(*               "[-]inf", "nan"), on every pattern; and rejects some      *)
(*               malformed strings.                                        *)
(*  FracOK       a transcription of float2fraction's field arithmetic      *)
(*               (epart/fpart/mxu branches) satisfies Convert's clauses.   *)
(*  MultiwordOK  a transcription of mpf2multiword's mask/offset loop:      *)
(*               words add up exactly for every chunk width pw with        *)
(*               2*pw >= p; for narrower chunks the loop can lose or       *)
(*               double-count bits (known defect, witnessed and counted).  *)
(* U2: ShapesOut prints the input shapes the driver must concretise in the *)
(* wide formats (MC_Convert_shapes.cfg).                                   *)
(***************************************************************************)
EXTENDS Convert, FiniteSets
CONSTANT Fmt
VARIABLE i

T4 == [p |-> 4, emax |-> 3, w |-> 7]
T5 == [p |-> 5, emax |-> 7, w |-> 9]

X(n) == NFromInt(n)
NPat == Pow2(Fmt.w)
Finite == {n \in 0..(NPat - 1) : IsFinite(Fmt, X(n))}

(*************************** oracle coherence ******************************)
OracleOK(n) ==
  LET x == X(n)
      c == Cls(Fmt, x)
  IN  /\ c \in {"nan", "pinf", "ninf", "pzero", "nzero", "sub", "norm"}
      /\ FromOrd(Fmt, Ord(Fmt, x)) = (IF x = NegZero(Fmt) THEN PosZero(Fmt) ELSE x)
      /\ IsFinite(Fmt, x) =>
           LET v == Val(Fmt, x)
           IN  /\ IsRN(Fmt, v, x)
               /\ (~IsZero(Fmt, x) => RN(Fmt, v) = x)
               /\ DEq(Val(Fmt, FNeg(Fmt, x)), DNeg(v))
               /\ (c = "sub") = (~DIsZero(v) /\ DLt(DAbs(v), <<ZFromInt(1), EMin(Fmt)>>))
               /\ \A m \in Finite :
                    LET y == X(m)
                    IN  /\ ZLt(Ord(Fmt, x), Ord(Fmt, y)) <=> DLt(v, Val(Fmt, y))
                        /\ (Ord(Fmt, x) = Ord(Fmt, y)) <=> DEq(v, Val(Fmt, y))
               /\ LET up == NextUp(Fmt, x)
                  IN  IF IsFinite(Fmt, up)
                      THEN /\ DLt(v, Val(Fmt, up))
                           /\ ~\E m \in Finite : DLt(v, Val(Fmt, X(m))) /\ DLt(Val(Fmt, X(m)), Val(Fmt, up))
                           /\ NextDown(Fmt, up) = (IF x = NegZero(Fmt) THEN PosZero(Fmt) ELSE x)
                           \* rounding between neighbours: quarter points go to the nearer one, the
                           \* midpoint to the one with the even significand
                           /\ LET w == Val(Fmt, up)
                                  q1 == DShl(DAdd(DAdd(v, v), DAdd(v, w)), -2)
                                  q2 == DShl(DAdd(v, w), -1)
                                  q3 == DShl(DAdd(DAdd(w, w), DAdd(v, w)), -2)
                                  r2 == Mag(Fmt, RN(Fmt, q2))
                              IN  /\ Mag(Fmt, RN(Fmt, q1)) = Mag(Fmt, x)
                                  /\ Mag(Fmt, RN(Fmt, q3)) = Mag(Fmt, up)
                                  /\ r2 \in {Mag(Fmt, x), Mag(Fmt, up)} /\ ~NIsOdd(r2)
                      ELSE Mag(Fmt, x) = LargestMag(Fmt) /\ SignBit(Fmt, x) = 0 /\ up = PosInf(Fmt)

(*************************** printer / parser ******************************)
RECURSIVE DecDigits(_)
DecDigits(n) == IF n < 10 THEN <<Ch0 + n>> ELSE DecDigits(n \div 10) \o <<Ch0 + (n % 10)>>
SignedDec(n) == IF n < 0 THEN <<ChMinus>> \o DecDigits(-n) ELSE <<ChPlus>> \o DecDigits(n)

\* bits k-1..0 of the natural a, most significant first, as characters
BitChars(a, k) == [j \in 1..k |-> Ch0 + NBit(a, k - j)]
RECURSIVE RStrip0(_)
RStrip0(s) == IF s # <<>> /\ s[Len(s)] = Ch0 THEN RStrip0(SubSeq(s, 1, Len(s) - 1)) ELSE s

\* float2bin's output format, written from the VALUE (not from the fields)
PrintBin(f, x) ==
  IF IsNaN(f, x) THEN StrNaN
  ELSE IF IsInf(f, x) THEN (IF SignBit(f, x) = 1 THEN <<ChMinus>> ELSE <<>>) \o StrInf
  ELSE IF IsZero(f, x) THEN <<Ch0>>
  ELSE LET v == DCanon(Val(f, x))
           man == v[1][2]
           k == NBitLen(man)
           frac == BitChars(man, k - 1)
       IN  (IF SignBit(f, x) = 1 THEN <<ChMinus>> ELSE <<>>) \o <<Ch1>>
           \o (IF frac = <<>> THEN <<>> ELSE <<ChDot>> \o frac)
           \o <<ChP>> \o SignedDec(v[2] + k - 1)

Malformed == {<<>>, <<ChMinus>>, <<ChP>>, <<Ch1, ChP>>, <<Ch1, ChDot, ChDot, Ch1, ChP, Ch0>>,
              <<Ch1, 50, ChP, Ch0>>, <<Ch1, ChP, ChPlus>>, <<Ch1, ChP, Ch0, ChP>>, <<ChP, Ch1>>,
              <<105, 110>>, <<Ch1>>, <<Ch1, ChDot, Ch1>>}

ParserOK(n) ==
  LET x == X(n)
      s == PrintBin(Fmt, x)
      P == ParseBin(s)
  IN  /\ BinFails(Fmt, x, [st |-> "ok", s |-> s, back |-> x]) = {}
      /\ IsFinite(Fmt, x) => (P.kind = "fin" /\ DEq(P.d, Val(Fmt, x)))
      \* the accepted grammar is wider: unnormalised digits and a missing point denote the same value
      /\ (IsFinite(Fmt, x) /\ ~IsZero(Fmt, x)) =>
           LET u == BitChars(Sig(Fmt, x), Fmt.p) \o <<ChP>> \o SignedDec(Quantum(Fmt, x))
               Q == ParseBin((IF SignBit(Fmt, x) = 1 THEN <<ChMinus>> ELSE <<>>) \o u)
           IN  Q.kind = "fin" /\ DEq(Q.d, Val(Fmt, x))
      /\ \A b \in Malformed : ParseBin(b).kind = "bad"

(*************************** float2fraction transcription ******************)
\* field arithmetic as in functional_algorithms.utils.float2fraction (numpy branch)
FracOf(f, x) ==
  LET fsz == f.p - 1
      mxu == NPow2(fsz)
      fpart == Frac(f, x)
      epart == ExpField(f, x)
      emask == NExpFields(f) - 1
      s == SignBit(f, x)
      minexp == EMin(f)                                \* numpy finfo.minexp
      e == epart + minexp - 1
  IN  IF epart = 0 /\ fpart = <<>> THEN <<ZZero, NOne>>
      ELSE IF epart = 0 THEN <<ZMk(s, fpart), NMul(mxu, NPow2(-e - 1))>>
      ELSE IF epart = emask /\ fpart = <<>> THEN <<ZMk(s, NPow2(f.emax + 1)), NOne>>
      ELSE IF e < 0 THEN <<ZMk(s, NAdd(mxu, fpart)), NMul(mxu, NPow2(-e))>>
      ELSE <<ZMk(s, NShl(NAdd(mxu, fpart), e)), mxu>>

FracOK(n) ==
  LET x == X(n)
      q == FracOf(Fmt, x)
  IN  IsFinite(Fmt, x) =>
        /\ FracFails(Fmt, x, [st |-> "ok", num |-> q[1], den |-> q[2],
                              back |-> IF IsZero(Fmt, x) THEN PosZero(Fmt) ELSE x]) = {}
        /\ QEq(q, QFromD(Val(Fmt, x)))

(*************************** mpf2multiword transcription *******************)
\* bits [off, off+width) of man  (the code's (man & (mask << offset)) >> offset, mask = 2^width - 1)
Window(man, off, width) == NLow(NShr(man, off), width)

\* the mask/offset loop of functional_algorithms.utils.mpf2multiword for a finite non-zero
\* float x (sign, man, exp as float2mpf produces them), chunk width pw <= p, no max_length.
\* Every chunk of a float's significand is representable, so mpf2float is the identity on it.
RECURSIVE MWLoop(_, _, _, _, _, _, _)
MWLoop(f, neg, man, exp, pw, mbits, off) ==
  LET man1a == Window(man, off, mbits)
      d == mbits - NBitLen(man1a)
      off1 == IF d > 0 /\ off >= d THEN off - d ELSE off
      man1 == Window(man, off1, mbits)
      bl1 == NBitLen(man1)
      word == <<ZMk(neg, man1), exp + off1>>
  IN  IF man1 = <<>> THEN <<>>                                   \* "result represents truncated x"
      ELSE IF off1 = 0 THEN <<word>>
      ELSE IF off1 < pw THEN <<word>> \o MWLoop(f, neg, man, exp, pw, off1, 0)
      ELSE <<word>> \o MWLoop(f, neg, man, exp, pw, mbits, off1 - bl1)

MWOf(f, x, pw) ==
  LET v == DCanon(Val(f, x))
      man == v[1][2]
      bl == NBitLen(man)
  IN  MWLoop(f, v[1][1], man, v[2], pw, Min(bl, pw), Max(bl - pw, 0))

MWSumOK(f, x, pw) == DEq(DSum(MWOf(f, x, pw)), Val(f, x))
MWTrunc(f, x, pw) == IsTruncationOf(DSum(MWOf(f, x, pw)), Val(f, x))
MWWordsFit(f, x, pw) ==
  \A j \in 1..Len(MWOf(f, x, pw)) :
     LET wd == MWOf(f, x, pw)[j] IN NBitLen(wd[1][2]) <= f.p /\ wd[2] >= QMin(f) /\ Representable(f, wd)

MultiwordOK(n) ==
  LET x == X(n)
  IN  (IsFinite(Fmt, x) /\ ~IsZero(Fmt, x)) =>
        \A pw \in 1..Fmt.p :
           /\ MWWordsFit(Fmt, x, pw)
           /\ (2 * pw >= Fmt.p => MWSumOK(Fmt, x, pw))

\* the loop's known defect is real at design level: some value is truncated for a small width
TruncationWitness == \E n \in Finite : ~IsZero(Fmt, X(n)) /\ \E pw \in 1..Fmt.p : ~MWSumOK(Fmt, X(n), pw)

(*************************** the state machine *****************************)
Init == i = 0
StepZero == i < NPat /\ IsZero(Fmt, X(i)) /\ i' = i + 1
StepSub == i < NPat /\ IsSubnormal(Fmt, X(i)) /\ i' = i + 1
StepNormal == i < NPat /\ IsNormal(Fmt, X(i)) /\ i' = i + 1
StepInf == i < NPat /\ IsInf(Fmt, X(i)) /\ i' = i + 1
StepNaN == i < NPat /\ IsNaN(Fmt, X(i)) /\ i' = i + 1
Next == StepZero \/ StepSub \/ StepNormal \/ StepInf \/ StepNaN
Spec == Init /\ [][Next]_i

InRange == i < NPat
OracleInv == InRange => OracleOK(i)
ParserInv == InRange => ParserOK(i)
FracInv == InRange => FracOK(i)
MultiwordInv == InRange => MultiwordOK(i)
Done == /\ PrintT(<<"U1", "patterns", NPat>>)
        /\ PrintT(<<"U1", "finite", Cardinality(Finite)>>)
        /\ PrintT(<<"U1", "multiword_truncations",
                    Cardinality({<<n, pw>> \in Finite \X (1..Fmt.p) :
                                   ~IsZero(Fmt, X(n)) /\ ~MWSumOK(Fmt, X(n), pw)})>>)
        /\ TruncationWitness
        /\ TLCGet("stats").diameter = NPat + 1

(*************************** U2: shapes ************************************)
Shapes ==
  {<<c, s, "na", "na">> : c \in {"zero", "inf"}, s \in {0, 1}}
  \cup {<<"nan", s, "na", sh>> : s \in {0, 1}, sh \in {"zero", "lsb", "ones", "rand"}}
  \cup {<<c, s, pos, sh>> : c \in {"sub", "norm"}, s \in {0, 1}, pos \in {"lo", "lo1", "mid", "hi1", "hi"},
                            sh \in {"zero", "lsb", "msb", "ones", "ones1", "alt", "gap"}}
ShapesOut(u) == u = 0 /\ \A t \in Shapes : PrintT(<<"SHAPE", t[1], t[2], t[3], t[4]>>)
ShapeInit == i = 0 /\ ShapesOut(i)
ShapeSpec == ShapeInit /\ [][UNCHANGED i]_i
=============================================================================
