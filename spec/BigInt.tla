------------------------------- MODULE BigInt -------------------------------
(***************************************************************************)
(* Arbitrary-precision integers for TLC (whose native integers are 32-bit).*)
(*                                                                         *)
(* A natural number is a little-endian sequence of limbs in 0..B-1 without *)
(* trailing zero limbs; zero is <<>>.  A signed integer is <<neg, mag>>    *)
(* with neg \in {0,1} and canonical zero <<0, <<>>>>.  A dyadic number is  *)
(* <<z, e>> (value z * 2^e, e a native integer).  A rational is <<z, d>>   *)
(* with d a non-zero natural.                                              *)
(*                                                                         *)
(* The N* primitives marked OVERRIDABLE have java.math.BigInteger          *)
(* overrides (java/FAOverrides.java) that are used only as an accelerator; *)
(* these definitions are the authority and MC_BigInt checks the two agree. *)
(***************************************************************************)
EXTENDS Naturals, Integers, Sequences

B == 32768
LB == 15

RECURSIVE Pow2(_)
Pow2(n) == IF n = 0 THEN 1 ELSE 2 * Pow2(n - 1)     \* native, n <= 30

Max(a, b) == IF a >= b THEN a ELSE b
Min(a, b) == IF a <= b THEN a ELSE b

(*************************** naturals **************************************)
RECURSIVE NNorm(_)
NNorm(a) == IF a = <<>> THEN a
            ELSE IF a[Len(a)] = 0 THEN NNorm(SubSeq(a, 1, Len(a) - 1)) ELSE a

RECURSIVE NFromInt(_)
NFromInt(n) == IF n = 0 THEN <<>> ELSE <<n % B>> \o NFromInt(n \div B)

RECURSIVE NToIntFrom(_, _)
NToIntFrom(a, i) == IF i > Len(a) THEN 0 ELSE a[i] + B * NToIntFrom(a, i + 1)
NToInt(a) == NToIntFrom(a, 1)                       \* only for values < 2^31

NIsZero(a) == a = <<>>
Limb(a, i) == IF i <= Len(a) THEN a[i] ELSE 0

RECURSIVE NCmpFrom(_, _, _)
NCmpFrom(a, b, i) == IF i = 0 THEN 0
                     ELSE IF a[i] < b[i] THEN -1
                     ELSE IF a[i] > b[i] THEN 1
                     ELSE NCmpFrom(a, b, i - 1)
\* OVERRIDABLE
NCmp(a, b) == IF Len(a) < Len(b) THEN -1
              ELSE IF Len(a) > Len(b) THEN 1
              ELSE NCmpFrom(a, b, Len(a))

RECURSIVE NAddC(_, _, _, _)
NAddC(a, b, i, c) ==
  IF i > Len(a) /\ i > Len(b) THEN (IF c = 0 THEN <<>> ELSE <<c>>)
  ELSE LET s == Limb(a, i) + Limb(b, i) + c
       IN  <<s % B>> \o NAddC(a, b, i + 1, s \div B)
\* OVERRIDABLE
NAdd(a, b) == NAddC(a, b, 1, 0)

RECURSIVE NSubC(_, _, _, _)
NSubC(a, b, i, c) ==                      \* requires a >= b
  IF i > Len(a) THEN <<>>
  ELSE LET s == a[i] - Limb(b, i) - c
       IN  IF s < 0 THEN <<s + B>> \o NSubC(a, b, i + 1, 1)
                    ELSE <<s>> \o NSubC(a, b, i + 1, 0)
\* OVERRIDABLE
NSub(a, b) == NNorm(NSubC(a, b, 1, 0))

RECURSIVE NMulLimbC(_, _, _, _)
NMulLimbC(a, m, i, c) ==                  \* a * m, 0 <= m < B
  IF i > Len(a) THEN (IF c = 0 THEN <<>> ELSE <<c>>)
  ELSE LET s == a[i] * m + c
       IN  <<s % B>> \o NMulLimbC(a, m, i + 1, s \div B)
NMulLimb(a, m) == IF m = 0 THEN <<>> ELSE NMulLimbC(a, m, 1, 0)

RECURSIVE NMulFrom(_, _, _)
NMulFrom(a, b, j) ==                      \* a * (b[j..] as a number)
  IF j > Len(b) THEN <<>>
  ELSE LET rest == NMulFrom(a, b, j + 1)
       IN  NAdd(NMulLimb(a, b[j]), IF rest = <<>> THEN <<>> ELSE <<0>> \o rest)
\* OVERRIDABLE
NMul(a, b) == IF a = <<>> \/ b = <<>> THEN <<>> ELSE NMulFrom(a, b, 1)

Zeros(n) == [i \in 1..n |-> 0]
\* OVERRIDABLE: a * 2^k
NShl(a, k) == IF a = <<>> THEN <<>>
              ELSE Zeros(k \div LB) \o NMulLimbC(a, Pow2(k % LB), 1, 0)

RECURSIVE NShrBits(_, _, _)
NShrBits(a, r, i) ==                      \* 0 < r < LB; limbs i.. shifted right by r
  IF i > Len(a) THEN <<>>
  ELSE <<(a[i] \div Pow2(r)) + (Limb(a, i + 1) % Pow2(r)) * Pow2(LB - r)>>
       \o NShrBits(a, r, i + 1)
\* OVERRIDABLE: floor(a / 2^k)
NShr(a, k) ==
  LET q == k \div LB
      r == k % LB
      t == IF q >= Len(a) THEN <<>> ELSE SubSeq(a, q + 1, Len(a))
  IN  IF r = 0 THEN t ELSE NNorm(NShrBits(t, r, 1))

RECURSIVE BitLenLimb(_)
BitLenLimb(x) == IF x = 0 THEN 0 ELSE 1 + BitLenLimb(x \div 2)
\* OVERRIDABLE
NBitLen(a) == IF a = <<>> THEN 0 ELSE LB * (Len(a) - 1) + BitLenLimb(a[Len(a)])

\* a mod 2^k
NLow(a, k) ==
  LET q == k \div LB
      r == k % LB
  IN  IF q >= Len(a) THEN a
      ELSE NNorm(SubSeq(a, 1, q) \o (IF r = 0 THEN <<>> ELSE <<a[q + 1] % Pow2(r)>>))

NBit(a, i) == (Limb(a, i \div LB + 1) \div Pow2(i % LB)) % 2     \* bit i (0-based)
NIsOdd(a) == a # <<>> /\ a[1] % 2 = 1
NPow2(k) == NShl(<<1>>, k)
NOne == <<1>>

RECURSIVE NTrailingZerosFrom(_, _)
NTrailingZerosFrom(a, i) == IF NBit(a, i) = 1 THEN i ELSE NTrailingZerosFrom(a, i + 1)
NTrailingZeros(a) == IF a = <<>> THEN 0 ELSE NTrailingZerosFrom(a, 0)

NLt(a, b) == NCmp(a, b) < 0
NLe(a, b) == NCmp(a, b) <= 0
NIsPow2(a) == a # <<>> /\ NTrailingZeros(a) = NBitLen(a) - 1

\* floor division and remainder by shift-and-subtract, one quotient bit per step (b # 0)
RECURSIVE NDivStep(_, _, _, _, _)
NDivStep(a, b, i, q, r) ==
  IF i < 0 THEN <<q, r>>
  ELSE LET r2 == NAdd(NShl(r, 1), IF NBit(a, i) = 1 THEN NOne ELSE <<>>)
       IN  IF NCmp(r2, b) >= 0
           THEN NDivStep(a, b, i - 1, NAdd(NShl(q, 1), NOne), NSub(r2, b))
           ELSE NDivStep(a, b, i - 1, NShl(q, 1), r2)
\* OVERRIDABLE: <<floor(a / b), a mod b>>
NDivMod(a, b) == NDivStep(a, b, NBitLen(a) - 1, <<>>, <<>>)
NDiv(a, b) == NDivMod(a, b)[1]
NMod(a, b) == NDivMod(a, b)[2]

\* floor square root, one result bit per step
RECURSIVE NSqrtStep(_, _, _)
NSqrtStep(a, i, r) ==
  IF i < 0 THEN r
  ELSE LET c == NAdd(r, NPow2(i))
       IN  IF NCmp(NMul(c, c), a) <= 0 THEN NSqrtStep(a, i - 1, c) ELSE NSqrtStep(a, i - 1, r)
\* OVERRIDABLE
NSqrt(a) == IF a = <<>> THEN <<>> ELSE NSqrtStep(a, NBitLen(a) \div 2, <<>>)
NIsSquare(a) == LET r == NSqrt(a) IN NMul(r, r) = a

RECURSIVE NGcd(_, _)
\* OVERRIDABLE
NGcd(a, b) == IF b = <<>> THEN a ELSE NGcd(b, NMod(a, b))

IsNat(a) == /\ a \in Seq(0..(B - 1))
            /\ (a = <<>> \/ a[Len(a)] # 0)

(*************************** signed integers *******************************)
ZZero == <<0, <<>>>>
ZMk(neg, mag) == IF mag = <<>> THEN ZZero ELSE <<neg, mag>>
ZFromNat(a) == <<0, a>>
ZFromInt(n) == IF n < 0 THEN <<1, NFromInt(-n)>> ELSE <<0, NFromInt(n)>>
ZNeg(a) == ZMk(1 - a[1], a[2])
ZAbs(a) == <<0, a[2]>>
ZSign(a) == IF a[2] = <<>> THEN 0 ELSE IF a[1] = 1 THEN -1 ELSE 1
ZIsZero(a) == a[2] = <<>>
ZAdd(a, b) ==
  IF a[1] = b[1] THEN ZMk(a[1], NAdd(a[2], b[2]))
  ELSE LET c == NCmp(a[2], b[2])
       IN  IF c = 0 THEN ZZero
           ELSE IF c > 0 THEN ZMk(a[1], NSub(a[2], b[2]))
           ELSE ZMk(b[1], NSub(b[2], a[2]))
ZSub(a, b) == ZAdd(a, ZNeg(b))
ZMul(a, b) == ZMk((a[1] + b[1]) % 2, NMul(a[2], b[2]))
ZCmp(a, b) ==
  IF a[1] # b[1] THEN (IF a[1] = 1 THEN -1 ELSE 1)
  ELSE IF a[1] = 0 THEN NCmp(a[2], b[2]) ELSE NCmp(b[2], a[2])
ZLt(a, b) == ZCmp(a, b) < 0
ZLe(a, b) == ZCmp(a, b) <= 0
ZShl(a, k) == ZMk(a[1], NShl(a[2], k))
ZToInt(a) == IF a[1] = 1 THEN -NToInt(a[2]) ELSE NToInt(a[2])
IsZ(a) == a[1] \in {0, 1} /\ IsNat(a[2]) /\ (a[2] = <<>> => a[1] = 0)

(*************************** dyadic numbers z * 2^e ************************)
DZero == <<ZZero, 0>>
DMk(z, e) == IF ZIsZero(z) THEN DZero ELSE <<z, e>>
DNeg(a) == <<ZNeg(a[1]), a[2]>>
DAbs(a) == <<ZAbs(a[1]), a[2]>>
DSign(a) == ZSign(a[1])
DIsZero(a) == ZIsZero(a[1])
DAlign(a, e) == ZShl(a[1], a[2] - e)                 \* requires e <= a[2]
DAdd(a, b) ==
  IF DIsZero(a) THEN b ELSE IF DIsZero(b) THEN a
  ELSE LET e == Min(a[2], b[2]) IN DMk(ZAdd(DAlign(a, e), DAlign(b, e)), e)
DSub(a, b) == DAdd(a, DNeg(b))
DMul(a, b) == DMk(ZMul(a[1], b[1]), a[2] + b[2])
DCmp(a, b) ==
  IF DIsZero(a) THEN -DSign(b) ELSE IF DIsZero(b) THEN DSign(a)
  ELSE IF DSign(a) # DSign(b) THEN (IF DSign(a) < 0 THEN -1 ELSE 1)
  ELSE LET e == Min(a[2], b[2]) IN ZCmp(DAlign(a, e), DAlign(b, e))
DEq(a, b) == DCmp(a, b) = 0
DLt(a, b) == DCmp(a, b) < 0
DLe(a, b) == DCmp(a, b) <= 0
DShl(a, k) == DMk(a[1], a[2] + k)                    \* a * 2^k, k any integer
DFromInt(n) == DMk(ZFromInt(n), 0)
DFromNat(a) == DMk(ZFromNat(a), 0)
RECURSIVE DSum(_)
DSum(s) == IF s = <<>> THEN DZero ELSE DAdd(Head(s), DSum(Tail(s)))
\* exponent of the leading bit: |a| in [2^k, 2^(k+1))
DLead(a) == a[2] + NBitLen(a[1][2]) - 1
\* canonical odd-mantissa form
DCanon(a) == IF DIsZero(a) THEN DZero
             ELSE LET t == NTrailingZeros(a[1][2])
                  IN  <<ZMk(a[1][1], NShr(a[1][2], t)), a[2] + t>>

(*************************** rationals z / d *******************************)
QMk(z, d) == <<z, d>>
QFromZ(z) == <<z, NOne>>
QFromD(a) == IF a[2] >= 0 THEN <<ZShl(a[1], a[2]), NOne>> ELSE <<a[1], NPow2(-a[2])>>
QAdd(a, b) == <<ZAdd(ZMul(a[1], ZFromNat(b[2])), ZMul(b[1], ZFromNat(a[2]))), NMul(a[2], b[2])>>
QNeg(a) == <<ZNeg(a[1]), a[2]>>
QSub(a, b) == QAdd(a, QNeg(b))
QMul(a, b) == <<ZMul(a[1], b[1]), NMul(a[2], b[2])>>
QCmp(a, b) == ZCmp(ZMul(a[1], ZFromNat(b[2])), ZMul(b[1], ZFromNat(a[2])))
QEq(a, b) == QCmp(a, b) = 0
QLt(a, b) == QCmp(a, b) < 0
QLe(a, b) == QCmp(a, b) <= 0
QSign(a) == ZSign(a[1])
QAbs(a) == <<ZAbs(a[1]), a[2]>>
QInv(a) == <<ZMk(a[1][1], a[2]), a[1][2]>>           \* requires a # 0
QDiv(a, b) == QMul(a, QInv(b))
QIsZero(a) == ZIsZero(a[1])
QNorm(a) == IF ZIsZero(a[1]) THEN <<ZZero, NOne>>
            ELSE LET g == NGcd(a[1][2], a[2]) IN <<ZMk(a[1][1], NDiv(a[1][2], g)), NDiv(a[2], g)>>
QFromInt(n) == <<ZFromInt(n), NOne>>
\* exact square root of a rational when it is one (both parts perfect squares after reduction)
QIsSquare(a) == ZSign(a[1]) >= 0 /\ LET n == QNorm(a) IN NIsSquare(n[1][2]) /\ NIsSquare(n[2])
QSqrt(a) == LET n == QNorm(a) IN <<ZFromNat(NSqrt(n[1][2])), NSqrt(n[2])>>
=============================================================================
