\* U1 of C03: all 4096 complex values over the toy format T6 = [p=3, emax=3, w=6] (algebra of the symmetry
\* operators, closure of the exclusion sets, satisfiability and classification of the identity clauses on
\* model functions) and all 65536 patterns of float16 (sign-bit primitives on limb lists against IEEE.tla)
SPECIFICATION Spec
CONSTANT Tier = "thorough"
INVARIANTS Primitives Algebra Real1 Closed Satisfiable Classified BrokenCaught RealModels
CHECK_DEADLOCK FALSE
