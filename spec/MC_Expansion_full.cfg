\* U1 of C12 (thorough): toy format T3 = [p=3, emax=3, w=6]; ALL lists of 1..3 finite patterns (both signs of the first item)
SPECIFICATION Spec
CONSTANTS
  Fmt <- T3
  MaxLen = 3
  FirstMax = 63
INVARIANTS TwoSumExact IdealIsSafe FastIsSafe Functional ValueKept TwoPasses ClausesHold Witnesses
CHECK_DEADLOCK FALSE
