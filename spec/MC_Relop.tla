------------------------------ MODULE MC_Relop ------------------------------
(***************************************************************************)
(* Exhaustive soundness check of the rewriter's three relational-operator  *)
(* folding tables.  RelopTables is GENERATED from /repo's rewrite.py at    *)
(* check time (harness/props/c04.py), so TLC judges the data the current   *)
(* code uses.  A row (lhs, rhs) -> (>=, >, <=, <, ==, !=) with entries     *)
(* T/F/N claims that the comparison folds to TRUE/FALSE (N: no claim) for  *)
(* EVERY value of the class lhs against EVERY value of the class rhs.      *)
(*                                                                         *)
(* Values: the float lattice abstracted to integers that preserve its      *)
(* order: -inf < -largest < .. < -smallest_subnormal < 0 <                 *)
(* smallest_subnormal < (subnormals) < smallest < .. < eps < .. < 1 < ..   *)
(* < largest < +inf, with a witness strictly between each pair of named    *)
(* values where the lattice has one (none between 0 and smallest_subnormal *)
(* nor between largest and +inf).  "positive"/"nonnegative" contain +inf,  *)
(* "negative"/"nonpositive" contain -inf, "finite" contains neither.       *)
(***************************************************************************)
EXTENDS Integers, Sequences, FiniteSets, TLC, RelopTables

U == {-100, -50, -30, -20, -15, -10, -7, -4, -2, -1, 0, 1, 2, 4, 7, 10, 15, 20, 30, 50, 100}
ValueOf(c) == CASE c = "posinf" -> 100 [] c = "neginf" -> -100 [] c = "largest" -> 50 [] c = "one" -> 20
                [] c = "eps" -> 10 [] c = "smallest" -> 4 [] c = "smallest_subnormal" -> 1 [] c = "zero" -> 0
Classes == {"positive", "negative", "nonpositive", "nonnegative", "finite"}
Gamma(c) == CASE c = "positive" -> {u \in U : u > 0}
              [] c = "negative" -> {u \in U : u < 0}
              [] c = "nonpositive" -> {u \in U : u <= 0}
              [] c = "nonnegative" -> {u \in U : u >= 0}
              [] c = "finite" -> U \ {-100, 100}
              [] OTHER -> {ValueOf(c)}
Ops == <<"ge", "gt", "le", "lt", "eq", "ne">>
Holds(i, a, b) == CASE i = 1 -> a >= b [] i = 2 -> a > b [] i = 3 -> a <= b [] i = 4 -> a < b [] i = 5 -> a = b [] i = 6 -> a # b

Known(c) == c \in Classes \cup {"posinf", "neginf", "largest", "one", "eps", "smallest", "smallest_subnormal", "zero"}
\* counterexamples of a table: <<lhs, rhs, op, claimed, a, b>>
Bad(rows) == {<<r[1], r[2], Ops[i], r[3][i], a, b>> :
                r \in {q \in rows : Known(q[1]) /\ Known(q[2])}, i \in 1..6, a \in U, b \in U}
BadOf(rows) == {x \in UNION {{<<r[1], r[2], Ops[i], r[3][i], a, b>> : i \in 1..6, a \in Gamma(r[1]), b \in Gamma(r[2])}
                               : r \in {q \in rows : Known(q[1]) /\ Known(q[2])}} :
                  x[4] # "N" /\ LET i == CHOOSE j \in 1..6 : Ops[j] = x[3]
                                IN  Holds(i, x[5], x[6]) # (x[4] = "T")}
\* one witness per (row, op)
OneEach(S) == {CHOOSE x \in S : x[1] = k[1] /\ x[2] = k[2] /\ x[3] = k[3] : k \in {<<y[1], y[2], y[3]>> : y \in S}}

VARIABLE done
Init == done = FALSE
Next == /\ ~done /\ done' = TRUE
        /\ \A x \in OneEach(BadOf(ConstConst)) : PrintT(<<"BAD", "constant_relop_constant">> \o x)
        /\ \A x \in OneEach(BadOf(ConstAny)) : PrintT(<<"BAD", "constant_relop_any">> \o x)
        /\ \A x \in OneEach(BadOf(AnyAny)) : PrintT(<<"BAD", "any_relop_any">> \o x)
        /\ PrintT(<<"ROWS", Cardinality(ConstConst) + Cardinality(ConstAny) + Cardinality(AnyAny)>>)
Spec == Init /\ [][Next]_done
=============================================================================
