\* quick, exhaustive: toy format [p |-> 3, emax |-> 3, w |-> 6] (64 patterns, 56 finite, 6 subnormal),
\* ALL ordered pairs of finite patterns (states x <= y, laws evaluated in both orders), all 4 x 4 collapse
\* thresholds; proper triples are covered by MC_Ulp_p2.cfg (quick) and MC_Ulp_triples.cfg (thorough)
SPECIFICATION Spec
CONSTANTS
  Fmt <- MC_F36
  Thr <- MC_ThrAll3
  Triples = FALSE
INVARIANT Laws
CHECK_DEADLOCK FALSE
