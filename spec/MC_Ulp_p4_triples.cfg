\* thorough, exhaustive: toy format [p |-> 4, emax |-> 3, w |-> 7] (128 patterns, 112 finite, 14 subnormal),
\* ALL monotone triples x <= y <= z of finite patterns, collapse thresholds {1, 4, 5, 8} x {1, 4, 5, 8}
\* (all-to-normal, half, half+1, all-to-zero)
SPECIFICATION Spec
CONSTANTS
  Fmt <- MC_F47
  Thr <- MC_ThrSome4
  Triples = TRUE
INVARIANT Laws
CHECK_DEADLOCK FALSE
