\* NEGATIVE CONTROL (LawsOK must be violated): every enclosure cut to its lowest eighth
SPECIFICATION Spec
CONSTANTS
  GridN = 3
  GridShift = 1
  Scales <- ScalesQuick
  Ws = {48}
  TP = 4
  TEMAX = 7
  TW = 8
  ToyFull = FALSE
  Sabotage = 1
INVARIANT LawsOK
INVARIANT Count
CHECK_DEADLOCK FALSE
