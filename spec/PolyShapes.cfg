\* U2 of C16, thorough: every degree 0..40 and zero pattern for every function
SPECIFICATION Spec
CONSTANT Tier = "thorough"
INVARIANT Emit
CHECK_DEADLOCK FALSE
