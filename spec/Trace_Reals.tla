----------------------------- MODULE Trace_Reals -----------------------------
(***************************************************************************)
(* SOUNDNESS SELF-TEST of Reals.tla (machinery, not a property check; run  *)
(* by harness/props/c02.py selftest()).  Each event names a function, a    *)
(* working width W, dyadic argument(s) and a reference value computed by   *)
(* mpmath at 400 bits; the enclosure computed by Reals.tla must            *)
(*   wellformed  have lo <= hi                                             *)
(*   miss        contain the reference (up to the reference's own error    *)
(*               2^-390 relative)                                          *)
(*   wide        have relative width < 2^-(W - 10)  (width <= 2^(10-W) *   *)
(*               |ref|; for a reference that is exactly 0 the enclosure    *)
(*               must be the point 0)                                      *)
(* A failure here is a machinery failure (exit 2): it means Reals.tla is   *)
(* unsound or too coarse, and a property verdict built on it would be      *)
(* meaningless.  Events with show = TRUE also print the enclosure (used to *)
(* diff the runs with and without the Java BigInt overrides).              *)
(*                                                                         *)
(* Event: id, fn, w, x = dyadic [[neg, limbs], e], y (second argument of   *)
(* atan2 / div / mul / add), ref = dyadic, show.                           *)
(***************************************************************************)
EXTENDS Reals, TraceKit
VARIABLE l

Dy(j) == DMk(ZMk(j[1][1], j[1][2]), j[2])

Encl(e) ==
  LET x == Dy(e.x)
      W == e.w
      fn == e.fn
  IN  CASE fn = "expm1" -> ExpM1P(x, W)
        [] fn = "exp" -> ExpP(x, W)
        [] fn = "sinh" -> SinhP(x, W)
        [] fn = "coshm1" -> CoshM1P(x, W)
        [] fn = "cosh" -> CoshP(x, W)
        [] fn = "sin" -> SinP(x, W)
        [] fn = "cos" -> CosP(x, W)
        [] fn = "atan" -> AtanP(x, W)
        [] fn = "log" -> LogP(x, W)
        [] fn = "log1p" -> Log1pP(x, W)
        [] fn = "sqrt" -> ISqrt(IPt(x), W)
        [] fn = "atan2" -> Atan2P(x, Dy(e.y), W)
        [] fn = "div" -> IDiv(IPt(x), IPt(Dy(e.y)), W)
        [] fn = "mul" -> IMul(IPt(x), IPt(Dy(e.y)), W)
        [] fn = "add" -> IAdd(IPt(x), IPt(Dy(e.y)), W)
        \* interval arguments [x, x + |x| 2^-20]: the point value must still be inside
        [] fn = "sin_i" -> SinI(<<x, DAdd(x, DShl(DAbs(x), -20))>>, W)
        [] fn = "cos_i" -> CosI(<<x, DAdd(x, DShl(DAbs(x), -20))>>, W)
        [] fn = "expm1_i" -> ExpM1I(<<x, DAdd(x, DShl(DAbs(x), -20))>>, W)
        [] fn = "log_i" -> LogI(<<x, DAdd(x, DShl(DAbs(x), -20))>>, W)
        [] fn = "atan_i" -> AtanI(<<x, DAdd(x, DShl(DAbs(x), -20))>>, W)
        [] fn = "sinh_i" -> SinhI(<<x, DAdd(x, DShl(DAbs(x), -20))>>, W)
        [] fn = "coshm1_i" -> CoshM1I(<<x, DAdd(x, DShl(DAbs(x), -20))>>, W)

IsIntervalFn(fn) == fn \in {"sin_i", "cos_i", "expm1_i", "log_i", "atan_i", "sinh_i", "coshm1_i"}

Fails(e, X) ==
  LET ref == Dy(e.ref)
      slack == DShl(DAbs(ref), -390)
      inside == DLe(DSub(X[1], slack), ref) /\ DLe(ref, DAdd(X[2], slack))
      narrow == IF DIsZero(ref) THEN DIsZero(X[1]) /\ DIsZero(X[2])
                ELSE DLe(IWidth(X), DShl(DAbs(ref), 10 - e.w))
  IN  (IF ~IWellFormed(X) THEN {"wellformed"} ELSE {})
      \cup (IF ~inside THEN {"miss"} ELSE {})
      \cup (IF ~IsIntervalFn(e.fn) /\ ~narrow THEN {"wide"} ELSE {})

Init == l = 1
Next == /\ l <= Len(Trace)
        /\ LET e == Trace[l]
               X == Encl(e)
           IN  /\ Report(e, Fails(e, X))
               /\ (IF e.show THEN Note(e, X) ELSE TRUE)
        /\ l' = l + 1
Spec == Init /\ [][Next]_l
=============================================================================
