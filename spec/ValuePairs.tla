----------------------------- MODULE ValuePairs -----------------------------
(***************************************************************************)
(* Shapes of pairs of DIFFERENT Python values that a non-injective constant *)
(* key could confuse; enumerated by TLC, concretised by the C07 driver     *)
(* (k pairs per shape drawn from the seed), replayed into a real Context   *)
(* as:  x; constant(a, x); constant(b, x); constant(a, x); x*ca; x*cb      *)
(* and validated by Trace_Context.tla.                                     *)
(*   neighbour     adjacent values on the float lattice                    *)
(*   regroup       bit patterns whose unpadded hex/byte renderings coincide*)
(*   sign          x and -x (including the zeros)                          *)
(*   same_int      different values with equal int()                       *)
(*   same_hash     different values with equal Python hash()               *)
(*   same_digits   values equal in their leading decimal digits            *)
(*   cross_type    numerically equal values of different Python types      *)
(*   exp_shift     x and 2x (same significand)                             *)
(*   byte_perm     bit pattern with two bytes exchanged                    *)
(***************************************************************************)
EXTENDS TLC
Families == {"neighbour", "regroup", "sign", "same_int", "same_hash", "same_digits", "cross_type",
             "exp_shift", "byte_perm"}
PyTypes == {"float", "float16", "float32", "float64", "int", "complex", "bool"}
Applicable(fam, ty) ==
  CASE fam \in {"neighbour", "regroup", "exp_shift", "byte_perm", "same_digits"} -> ty \in {"float", "float16", "float32", "float64"}
    [] fam = "sign" -> ty \notin {"bool"}
    [] fam = "same_int" -> ty \in {"float", "float16", "float32", "float64", "complex"}
    [] fam = "same_hash" -> ty \in {"int", "float", "float64", "float32"}
    [] fam = "cross_type" -> TRUE
VARIABLE done
Init == done = FALSE
Next == ~done /\ done' = TRUE /\
        \A fam \in Families, ty \in PyTypes : Applicable(fam, ty) => PrintT(<<"H", fam, ty>>)
Spec == Init /\ [][Next]_done
=============================================================================
