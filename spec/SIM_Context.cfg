\* simulation: larger alphabet (complex zeros, more numpy scalars), kinds incl. add/multiply/select/lt
SPECIFICATION SimSpec
CONSTANTS
  Values <- MC_ValuesSim
  Symbols <- MC_SymbolsSim
  Kinds <- MC_KindsSim
  SignInKey = TRUE
  MaxSteps = 12
  MaxConst = 6
INVARIANT NoAlias
INVARIANT Canonical
INVARIANT Emit
CHECK_DEADLOCK FALSE
