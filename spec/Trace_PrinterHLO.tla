--------------------------- MODULE Trace_PrinterHLO ---------------------------
(***************************************************************************)
(* C06: one event per emitted program (target x graph x context).          *)
(*   e.target ("stablehlo" / "xla_client"), e.nodes, e.root  the real      *)
(*            graph, projected (alternative-context graphs included)       *)
(*   e.prog = [params, stmts, rows, ret]  the text parsed by the           *)
(*            independent parser (FAPrinterHLO.tla header)                 *)
(*   e.wild   package templates of the wild-carded kinds                   *)
(*   e.warned [undefined_reference, constant_not_implemented]: numbers of  *)
(*            warnings the printer emitted while printing                  *)
(* Clauses (names reported in FAIL; see FAPrinter.tla / FAPrinterHLO.tla): *)
(*   operator, operand_order, distinct_share, comparison_direction,        *)
(*   constant_value, constant_type, constant_like, single_assignment,      *)
(*   def_before_use, declared_type, return_root.                           *)
(* A printer warning `undefined reference ... in constant` is an event     *)
(* field: the bound-before-referenced clause (def_before_use) is decided   *)
(* on the text; NOTE "warned_and_unbound" marks the programs where both    *)
(* coincide.  Nothing is executed (C05's samples / typing clauses do not   *)
(* apply).                                                                 *)
(***************************************************************************)
EXTENDS FAPrinterHLO, TraceKit
VARIABLE l

Wild(e) == IF "wild" \in DOMAIN e THEN e.wild ELSE [x \in {} |-> 0]

StaticFails(e) ==
  LET run == RunProgramH(e.target, e.nodes, e.root, Wild(e), e.prog)
      \* parameters / return annotation
      pf == {Fail("declared_type", 0, e.prog.params[j].name) : j \in {jj \in 1..Len(e.prog.params) :
                LET p == e.prog.params[jj]
                IN  \E m \in ParamNodes(e.nodes, p.name) : TypeNames(e.target, e.nodes[m].t) # {} /\ p.ty # "" /\ p.ty \notin TypeNames(e.target, e.nodes[m].t)}}
      rf == IF e.prog.ret # "" /\ TypeNames(e.target, e.nodes[e.root].t) # {} /\ e.prog.ret \notin TypeNames(e.target, e.nodes[e.root].t)
            THEN {Fail("declared_type", 0, "return")} ELSE {}
  IN  run.fails \cup pf \cup rf

\* A text with more than MaxRows term rows that is also more than 8 times larger than its graph (only seen when a
\* printer defect re-prints shared sub-terms: the text grows exponentially) is judged on the text-level discipline
\* alone; the driver reports such programs (machinery failure if that discipline holds).
MaxRows == 500
\* (no recursion over the statements: such texts have tens of thousands of them)
DupAssign(prog) ==
  LET idx == {j \in 1..Len(prog.stmts) : prog.stmts[j].op = "assign"}
      vars == {prog.stmts[j].var : j \in idx}
  IN  IF Cardinality(vars) < Cardinality(idx) \/ vars \cap ParamNames(prog) # {}
      THEN {Fail("single_assignment", 0, "(a name bound more than once)")} ELSE {}

LitFails(e) == {i \in 1..Len(e.prog.rows) : ~LitConvOk("cpp", e.prog.rows[i])}

Init == l = 1
Next == /\ l <= Len(Trace)
        /\ LET e == Trace[l]
               big == Len(e.prog.rows) > MaxRows /\ Len(e.prog.rows) > 8 * Len(e.nodes)
               sf == IF big THEN DupAssign(e.prog) ELSE StaticFails(e)
               lf == IF big THEN {} ELSE LitFails(e)
           IN  /\ Report(e, {x[1] : x \in sf})
               /\ IF big THEN Note(e, <<"oversize", Len(e.prog.rows)>>) ELSE TRUE
               /\ IF sf # {} THEN Note(e, <<"static", sf>>) ELSE TRUE
               /\ IF lf # {} THEN Note(e, <<"lit_conv", lf>>) ELSE TRUE
               /\ IF e.warned.undefined_reference > 0 /\ \E x \in sf : x[1] = "def_before_use"
                  THEN Note(e, <<"warned_and_unbound", e.warned.undefined_reference>>) ELSE TRUE
        /\ l' = l + 1
Spec == Init /\ [][Next]_l
=============================================================================
