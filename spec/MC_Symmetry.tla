---------------------------- MODULE MC_Symmetry -----------------------------
(***************************************************************************)
(* U1 for C03 (MC_Symmetry.cfg): exhaustive small-scope check of the       *)
(* symmetry operators and of the identity clauses of Symmetry.tla, so that *)
(* the trace invariants can be neither vacuous nor self-contradictory.     *)
(*                                                                         *)
(*  "pair" states: every complex value <<re, im>> over the toy format      *)
(*    T6 = [p = 3, emax = 3, w = 6] (64 patterns: both zeros, subnormals,  *)
(*    normals, both infinities, 6 NaNs): 4096 states; Tier = "quick" uses  *)
(*    T5 = [p = 2, emax = 3, w = 5] (32 patterns, 1024 states).            *)
(*      Algebra: Conj, Neg are involutions, RotI^4 = id, RotI^2 = Neg,     *)
(*        NRotI is the inverse of RotI, Conj RotI = NRotI Conj, the four   *)
(*        sign images are closed under Conj and Neg.                       *)
(*      Closed: the exclusion sets (ConjDemanded, OddDemanded, OnCut,      *)
(*        AcoshDemanded) and the zero class are invariant under the        *)
(*        symmetries that the orbit uses, and RotI maps the cut of         *)
(*        asinh/atan onto the cut of asin/atanh.                           *)
(*      Satisfiable: a family of model functions that honour the sign BIT  *)
(*        (asin(z) = z, acos(z) = Conj z, acosh = +-i acos by the sign     *)
(*        bit, square(z) = (|re|, sign(re) xor sign(im) |im|), ...)        *)
(*        passes every clause at every point - the clauses are jointly     *)
(*        satisfiable, including at all zero / NaN / infinite components.  *)
(*      Classified: a family of model functions built the way the code is  *)
(*        (quadrant folded by abs, sign restored by `select(signed < 0,    *)
(*        -v, v)`) fails ONLY oddness, ONLY at zero components off the     *)
(*        cuts and ONLY by the sign of a zero result - the classes of the  *)
(*        recorded known finding; each such class is printed as a witness  *)
(*        <<"W", fn, clause>>; the same functions with the restored sign   *)
(*        wrong in one quadrant fail on every orbit without a zero or NaN  *)
(*        component, in a class that is not a known one (BrokenCaught).    *)
(*  "single" states: every pattern of F16 (65536 states; Tier = "quick":  *)
(*    the 3072 patterns with low six bits 000000 / 000001 / 111111): the   *)
(*    sign-bit primitives on limb lists (FlipSign, SignSet, AbsBits, NaNB, *)
(*    ZeroB,                                                               *)
(*    GeOneB, NegativeB) agree with IEEE.tla's decoded meaning (FNeg,      *)
(*    SignBit, Mag, IsNaN, IsZero, Val >= 1, Val < 0); F16 has its sign    *)
(*    bit alone in the second limb (weight 1) while T6 has it in the first *)
(*    limb (weight 32), float32 / float64 have weights 2 / 8: the ASSUMEs  *)
(*    check the constants of those two formats.  Real orbits (x, -x): the  *)
(*    honest odd model passes, the code-like `sign(x) * r` fails only at   *)
(*    x = +-0 by the sign of the zero.                                     *)
(***************************************************************************)
EXTENDS Symmetry, TLC

T6 == [p |-> 3, emax |-> 3, w |-> 6]
T5 == [p |-> 2, emax |-> 3, w |-> 5]

CONSTANT Tier            \* "thorough": every F16 pattern; "quick": the F16 patterns whose low six bits are
                         \* 000000, 000001 or 111111 (every sign, exponent field and high mantissa bits)
VARIABLES kind, z, ph, blk
vars == <<kind, z, ph, blk>>

Singles == IF Tier = "quick" THEN {a \in 0..65535 : a % 64 \in {0, 1, 63}} ELSE 0..65535
Toy == IF Tier = "quick" THEN T5 ELSE T6
\* (the points are successors of 128 initial states - blocks of the first component - so that
\* TLC's workers share them)
Init == kind \in {"pair", "single"} /\ z = <<>> /\ ph = 0 /\ blk \in 0..63
Next == /\ ph = 0 /\ ph' = 1 /\ UNCHANGED <<kind, blk>>
        /\ \/ /\ kind = "pair" /\ blk < Pow2(Toy.w)
              /\ z' \in {<<NFromInt(blk), NFromInt(b)>> : b \in 0..(Pow2(Toy.w) - 1)}
           \/ /\ kind = "single"
              /\ z' \in {<<NFromInt(a)>> : a \in {c \in Singles : c \div 1024 = blk}}
Spec == Init /\ [][Next]_vars

F == IF kind = "pair" THEN Toy ELSE F16
IsPair == ph = 1 /\ kind = "pair"
IsSingle == ph = 1 /\ kind = "single"

(*************************** primitives vs IEEE.tla ************************)
PrimOK(f, x) ==
  /\ FlipSign(f, x) = FNeg(f, x)
  /\ FlipSign(f, FlipSign(f, x)) = x
  /\ SignSet(f, x) <=> SignBit(f, x) = 1
  /\ AbsBits(f, x) = Mag(f, x)
  /\ NaNB(f, x) <=> IsNaN(f, x)
  /\ ZeroB(f, x) <=> IsZero(f, x)
  /\ IsNat(FlipSign(f, x))
  /\ ~IsNaN(f, x) =>
       /\ GeOneB(f, x) <=> (IsInf(f, x) \/ DLe(DFromInt(1), DAbs(Val(f, x))))
       /\ NegativeB(f, x) <=> (x = NegInf(f) \/ (IsFinite(f, x) /\ DLt(Val(f, x), DZero)))
  /\ IsNaN(f, x) => ~NegativeB(f, x)
  /\ NaNB(f, FlipSign(f, x)) <=> NaNB(f, x)
  /\ ZeroB(f, FlipSign(f, x)) <=> ZeroB(f, x)
Primitives == ph = 1 => \A k \in 1..Len(z) : PrimOK(F, z[k])

(*************************** algebra of the operators **********************)
Algebra ==
  IsPair =>
    /\ Conj(F, Conj(F, z)) = z
    /\ Neg(F, Neg(F, z)) = z
    /\ RotI(F, RotI(F, z)) = Neg(F, z)
    /\ RotI(F, RotI(F, RotI(F, RotI(F, z)))) = z
    /\ NRotI(F, RotI(F, z)) = z /\ RotI(F, NRotI(F, z)) = z
    /\ NRotI(F, z) = Neg(F, RotI(F, z))
    /\ Conj(F, RotI(F, z)) = NRotI(F, Conj(F, z))
    /\ Conj(F, Neg(F, z)) = Neg(F, Conj(F, z))
    /\ LET U == Images(F, z)
           S == {U[k] : k \in 1..4}
       IN  /\ \A u \in S : Conj(F, u) \in S /\ Neg(F, u) \in S
           /\ U[2] = Conj(F, U[1]) /\ U[4] = Conj(F, U[3]) /\ U[3] = Neg(F, U[1]) /\ U[4] = Neg(F, U[2])
           \* the four rotated images are the sign images of RotI z
           /\ {RotI(F, u) : u \in S} = {Images(F, RotI(F, z))[k] : k \in 1..4}
Real1 == IsSingle => Neg(F16, Neg(F16, z)) = z /\ Conj(F16, z) = z

(*************************** exclusion sets are closed *********************)
Closed ==
  IsPair =>
    /\ \A u \in {Conj(F, z), Neg(F, z), RotI(F, z)} : HasNaN(F, u) <=> HasNaN(F, z)
    /\ ConjDemanded(F, z) <=> ConjDemanded(F, Conj(F, z))
    /\ ConjDemanded(F, z) <=> ConjDemanded(F, Neg(F, z))
    /\ AcoshDemanded(F, z) <=> AcoshDemanded(F, Conj(F, z))
    /\ \A fn \in OddFns :
         /\ OddDemanded(F, fn, z) <=> OddDemanded(F, fn, Neg(F, z))
         /\ OddDemanded(F, fn, z) <=> OddDemanded(F, fn, Conj(F, z))
         /\ OnCut(F, fn, z) => ZClass(F, z) \in {"re0", "im0"}
    /\ OnCut(F, "asinh", z) <=> OnCut(F, "asin", RotI(F, z))
    /\ OnCut(F, "atan", z) <=> OnCut(F, "atanh", RotI(F, z))
    /\ ZClass(F, Conj(F, z)) = ZClass(F, z) /\ ZClass(F, Neg(F, z)) = ZClass(F, z)
    /\ ZClass(F, RotI(F, z)) = (CASE ZClass(F, z) = "re0" -> "im0" [] ZClass(F, z) = "im0" -> "re0"
                                  [] OTHER -> ZClass(F, z))
    \* the side test of the acosh identity flips under conjugation exactly where the identity is one-sided
    /\ (~ZeroB(F, z[2]) /\ ~NaNB(F, z[2])) => (NegativeB(F, Conj(F, z)[2]) <=> ~NegativeB(F, z[2]))
    \* NaN matching NaN: an equivalence compatible with the operators
    /\ Same(F, z, z) /\ Same(F, Conj(F, z), Conj(F, z))
    /\ \A u \in {Conj(F, z), Neg(F, z), RotI(F, z)} :
         /\ Same(F, z, u) <=> Same(F, u, z)
         /\ Same(F, z, u) <=> (Kinds(F, z, u) = "re=eq:im=eq")
         /\ Same(F, z, u) <=> Same(F, Neg(F, z), Neg(F, u))

(*************************** model functions *******************************)
Xor(a, b) == (a /\ ~b) \/ (~a /\ b)
WithSignBit(f, s, x) == IF s THEN FlipSign(f, AbsBits(f, x)) ELSE AbsBits(f, x)

\* honest: the result's sign follows the sign BIT of the input
Honest(fn, u) ==
  CASE fn \in {"asin", "asinh", "atan", "atanh", "exp", "log", "log2", "log10", "log1p", "sqrt"} -> u
    [] fn = "acos" -> Conj(F, u)
    [] fn = "acosh" -> IF SignSet(F, u[2]) THEN NRotI(F, Conj(F, u)) ELSE RotI(F, Conj(F, u))
    [] fn = "square" -> <<AbsBits(F, u[1]), WithSignBit(F, Xor(SignSet(F, u[1]), SignSet(F, u[2])), u[2])>>
    [] fn = "absolute" -> <<AbsBits(F, u[1])>>

\* code-like: fold the quadrant with abs, restore the sign with select(signed < 0, -v, v)
Sel(s, v) == IF NegativeB(F, s) THEN FlipSign(F, AbsBits(F, v)) ELSE AbsBits(F, v)
\* asin restores the sign of im from im z, atanh the sign of re from re z; asinh and atan are DEFINED by
\* rotation of those two (as in algorithms.py), so their sign tests read re z and im z respectively
RECURSIVE CodeLike(_, _)
CodeLike(fn, u) ==
  CASE fn = "asin" -> <<u[1], Sel(u[2], u[2])>>
    [] fn = "atanh" -> <<Sel(u[1], u[1]), u[2]>>
    [] fn = "asinh" -> NRotI(F, CodeLike("asin", RotI(F, u)))
    [] fn = "atan" -> NRotI(F, CodeLike("atanh", RotI(F, u)))
    [] fn = "acos" -> <<u[1], FlipSign(F, Sel(u[2], u[2]))>>
    [] fn = "acosh" -> <<AbsBits(F, u[2]), IF NegativeB(F, u[2]) THEN FlipSign(F, u[1]) ELSE u[1]>>
    [] OTHER -> Honest(fn, u)

\* exp stands for the functions whose only identity is conj and whose model is the identity
\* (exp, log, log2, log10, log1p, sqrt)
Fns == {"absolute", "acos", "acosh", "asin", "asinh", "atan", "atanh", "exp", "square"}
ParentPoint(fn, u) == IF fn \in {"asinh", "atan"} THEN RotI(F, u) ELSE u
Orbit(M(_, _), fn) ==
  LET U == Images(F, z)
      W == [k \in 1..4 |-> M(fn, U[k])]
      P == IF ParentOf(fn) = "" THEN <<>> ELSE [k \in 1..4 |-> M(ParentOf(fn), ParentPoint(fn, U[k]))]
  IN  OrbitFails(F, fn, z, W, P)

HonestM(fn, u) == Honest(fn, u)
CodeM(fn, u) == CodeLike(fn, u)
\* a defect of the kind the property is about: the restored sign is wrong in one quadrant only
BrokenM(fn, u) ==
  IF fn \in OddFns /\ SignSet(F, u[1]) /\ SignSet(F, u[2]) /\ ~HasNaN(F, u)
  THEN Conj(F, Neg(F, CodeLike(fn, u))) ELSE CodeLike(fn, u)

Satisfiable == IsPair => \A fn \in Fns : Orbit(HonestM, fn) = {}

\* the classes a code-like implementation can fail: oddness, a zero component off the cut, the sign of a zero result
KnownClasses(fn) ==
  IF fn \in {"asin", "atan"} THEN {"odd:im0:offcut:re=eq:im=sign0", "odd:both0:offcut:re=eq:im=sign0"}
  ELSE IF fn \in {"asinh", "atanh"} THEN {"odd:re0:offcut:re=sign0:im=eq", "odd:both0:offcut:re=sign0:im=eq"}
  ELSE {}
\* (the functions whose code-like model differs from the honest one)
Classified ==
  IsPair => \A fn \in {"asin", "asinh", "atan", "atanh", "acos", "acosh"} :
     LET fails == Orbit(CodeM, fn)
     IN  /\ fails \subseteq KnownClasses(fn)
         /\ \A c \in fails : PrintT(<<"W", fn, c>>)
\* every orbit without a zero or NaN component has an image in the damaged quadrant: the broken family is
\* caught there, in a class that is not a known one
BrokenCaught ==
  (IsPair /\ ZClass(F, z) = "nz" /\ ~HasNaN(F, z)) =>
     \A fn \in {"asin", "asinh"} : \E c \in Orbit(BrokenM, fn) : c \notin KnownClasses(fn)

(*************************** real orbits (x, -x) ***************************)
RealOrbit(M(_), fn) == OrbitFails(F16, fn, z, <<M(z), M(Neg(F16, z))>>, <<>>)
RHonest(x) == x
RCode(x) == <<IF NegativeB(F16, x[1]) THEN FlipSign(F16, AbsBits(F16, x[1])) ELSE AbsBits(F16, x[1])>>
RSquare(x) == <<AbsBits(F16, x[1])>>
RealModels ==
  IsSingle =>
    /\ \A fn \in {"asin", "asinh"} : RealOrbit(RHonest, fn) = {}
    /\ RealOrbit(RSquare, "square") = {}
    /\ RealOrbit(RHonest, "square") \subseteq {"even:nz:offcut:v=sign", "even:x0:offcut:v=sign0"}
    /\ RealOrbit(RCode, "asinh") \subseteq {"odd:x0:offcut:v=sign0"}
    /\ (RealOrbit(RCode, "asinh") # {} => PrintT(<<"W", "real", RealOrbit(RCode, "asinh")>>))

(*************************** constants of the real formats *****************)
ASSUME DEq(Val(F32, One32), DFromInt(1)) /\ DEq(Val(F64, One64), DFromInt(1))
ASSUME FlipSign(F32, <<>>) = NegZero(F32) /\ FlipSign(F64, <<>>) = NegZero(F64)
ASSUME FlipSign(F32, NegZero(F32)) = <<>> /\ FlipSign(F64, NegZero(F64)) = <<>>
ASSUME FlipSign(F32, Inf32) = NegInf(F32) /\ FlipSign(F64, Inf64) = NegInf(F64)
ASSUME ~NaNB(F32, Inf32) /\ NaNB(F32, NAdd(Inf32, NOne)) /\ NaNB(F32, FlipSign(F32, NAdd(Inf32, NOne)))
ASSUME ~NaNB(F64, Inf64) /\ NaNB(F64, NAdd(Inf64, NOne)) /\ NaNB(F64, FlipSign(F64, NAdd(Inf64, NOne)))
ASSUME GeOneB(F64, One64) /\ ~GeOneB(F64, NSub(One64, NOne)) /\ GeOneB(F64, FlipSign(F64, One64))
ASSUME GeOneB(F32, One32) /\ ~GeOneB(F32, NSub(One32, NOne)) /\ GeOneB(F32, Inf32)
ASSUME \A f \in {F32, F64} : \A x \in {<<>>, NOne, OneOf(f), InfOf(f), LargestMag(f), MinNormalMag(f)} :
          FlipSign(f, x) = FNeg(f, x) /\ FlipSign(f, FNeg(f, x)) = x /\ SignSet(f, FNeg(f, x)) /\ ~SignSet(f, x)
=============================================================================
