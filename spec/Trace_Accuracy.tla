--------------------------- MODULE Trace_Accuracy ---------------------------
(***************************************************************************)
(* U3 for C02: every recorded evaluation of the generated implementation   *)
(* of a real algorithm is judged by Accuracy.tla.                          *)
(*                                                                         *)
(* Events (one ndjson line each; floats are raw bit patterns as limb       *)
(* lists, nothing is interpreted by the driver):                           *)
(*   fn in {absolute, acos, acosh, asin, asinh, square}:  fmt, x, w        *)
(*   fn = "hypot":                                        fmt, x, y, w     *)
(*   fn = "rate":  n, k3 (BigInt naturals): k3 of n uniformly drawn inputs *)
(*                 of one (function, format) exceeded 3 ULP; clause rate3  *)
(* Output:  <<"FAIL", id, {clauses}>>  and  <<"NOTE", id, {notes}>>        *)
(* (notes: beyond3, undecided, undecided3, inexact, zero_sign, nan_input;  *)
(* for a rate event the note is <<"threshold", k>>).                       *)
(***************************************************************************)
EXTENDS Accuracy, TraceKit
VARIABLE l

Verdict(e) ==
  IF e.fn = "rate" THEN [fails |-> RateFails(e.n, e.k3), notes |-> {}]
  ELSE IF e.fn \in BinaryFns THEN Verdict2(e.fn, FmtOf(e.fmt), e.x, e.y, e.w)
  ELSE Verdict1(e.fn, FmtOf(e.fmt), e.x, e.w)

Init == l = 1
Next == /\ l <= Len(Trace)
        /\ LET e == Trace[l]
               v == Verdict(e)
           IN  /\ Report(e, v.fails)
               /\ (IF v.notes = {} THEN TRUE ELSE Note(e, v.notes))
               /\ (IF e.fn = "rate" THEN Note(e, <<"threshold", RateThreshold(DFromNat(e.n))>>) ELSE TRUE)
        /\ l' = l + 1
Spec == Init /\ [][Next]_l
=============================================================================
