-------------------------- MODULE Trace_Expansion --------------------------
(***************************************************************************)
(* U3 for C12: every recorded call of the real apmath.renormalize / add /  *)
(* subtract / multiply / square is judged by Expansion.tla.                *)
(*                                                                         *)
(* Events (one ndjson line each; floats are raw bit patterns as limb       *)
(* lists, nothing is interpreted by the driver):                           *)
(*  common: id, fmt, op, variant ("eager": functional=False through        *)
(*     utils.NumpyContext on numpy scalars; "functional": functional=True  *)
(*     through utils.NumpyContext; "traced": functional=True traced with   *)
(*     fa.Context, rewritten and printed for the numpy target and executed *)
(*     on arrays - what is emitted for JAX), fast, size (-1 = not given),  *)
(*     raised (exception type name or ""), a, out.                         *)
(*  op "renorm": out = renormalize(a), pass2 (BOOLEAN: the driver called   *)
(*     out2 = renormalize(out) with the same options, which it does iff    *)
(*     out is not empty), dr (BOOLEAN: compare with the transcription),    *)
(*     skel / rel (the magnitude skeleton and the pair relations the       *)
(*     driver claims to have generated; <<>> when no claim), zsum (the     *)
(*     driver claims total cancellation).                                  *)
(*  op "add" / "sub": out = add(a, b) / subtract(a, b).                    *)
(*  op "mul" / "sq": out = multiply(a, b) / square(a)   (fast = FALSE);     *)
(*     tp = the results <<x, y, h, l>> of the public apmath.two_prod(x, y) *)
(*     on the pairs of non-zero items (the building block of the product). *)
(*                                                                         *)
(* Clauses (names printed in FAIL lines):                                  *)
(*  raised, nonfinite, length, zeros_right, sum  - pass 1 (PassFails)      *)
(*  length2, zeros_right2, sum2, nonfinite2      - pass 2                  *)
(*  nf_sorted_input / nf_unsorted_input: neither pass 1 nor pass 2 is in   *)
(*     normal form (input = the docstring's decreasing magnitudes or not)  *)
(*  ulp_bound_nf_operands / ulp_bound_raw_operands(_truncated): the        *)
(*     product differs from the exact product by one ulp of its leading    *)
(*     term or more (operands in normal form or not; result cut or not);   *)
(*     the suffix _two_prod_inexact is added when a logged two_prod result *)
(*     is not error-free (h + l # x * y): the building block - another     *)
(*     property's subject - already lost the bits.  The suffix only NAMES  *)
(*     the failure more narrowly, it never turns a failure into a pass.    *)
(* Notes (statistics, never failures): ood_overflow, ood_fast,             *)
(*  fast_sorted_sum_changed, truncated, second_pass, ood_product, inexact, *)
(*  nf_operands, drift (result differs from the transcription),            *)
(*  shape_mismatch / zsum_mismatch (harness defects: the driver turns      *)
(*  them into machinery failures).                                         *)
(*                                                                         *)
(* Leniencies: see the header of Expansion.tla; in addition                *)
(*  - fast = True is judged only on inputs that meet BOTH the docstring's  *)
(*    precondition (magnitudes of the non-zero items do not increase) and  *)
(*    FastOK;                                                              *)
(*  - "after at most two passes" is read as: pass 1 OR pass 2 is in normal *)
(*    form; it is judged only when both passes are inside their domain and *)
(*    kept the sum;                                                        *)
(*  - add/subtract are the renormalisation of the concatenation a ++ (+-b) *)
(*    and judged by the same clause set (sum = exact sum/difference when   *)
(*    not truncated);                                                      *)
(*  - the size limit of a call: size when given; add/subtract/multiply/    *)
(*    square know the dtype and also apply MaxTerms(f) (in all variants);  *)
(*    a direct renormalize call does not;                                  *)
(*  - multiply/square: the ulp is that of the first item of the result     *)
(*    (the quantum of the subnormals when the result is empty or zero).    *)
(***************************************************************************)
EXTENDS Expansion, TraceKit
VARIABLE l

Suffix2(s) == {CASE c = "sum" -> "sum2" [] c = "length" -> "length2" [] c = "zeros_right" -> "zeros_right2"
                 [] c = "nonfinite" -> "nonfinite2" [] OTHER -> c : c \in s}

NoRun == [out |-> <<>>, ok |-> FALSE, fin |-> FALSE]

RelHolds(f, a, b, rel) ==
  /\ ~IsZero(f, a) /\ ~IsZero(f, b) /\ IsFinite(f, a) /\ IsFinite(f, b)
  /\ CASE rel = "eq" -> Mag(f, a) = Mag(f, b)
       [] rel = "ovl" -> MagLt(f, b, a) /\ Lead(f, b) >= Quantum(f, a)
       [] rel = "adj" -> Lead(f, b) = Quantum(f, a) - 1
       [] rel = "gap" -> Lead(f, b) < Quantum(f, a) - 1
       [] OTHER -> FALSE
ShapeHolds(f, skel, rel) == Len(rel) = Len(skel) - 1 /\ \A i \in 1..Len(rel) : RelHolds(f, skel[i], skel[i + 1], rel[i])

RenormVerdict(e) ==
  LET f == FmtOf(e.fmt)
      a == e.a
      out == e.out
      functional == e.variant # "eager"
      limit == Limit(f, e.size, FALSE)
      novf1 == a # <<>> /\ NoOverflow(f, a)
      ref1 == IF novf1 /\ (e.fast \/ e.dr) THEN RenormRun(f, a, "ideal") ELSE NoRun
      sorted == Sorted(f, a)
      dom1 == novf1 /\ (e.fast => (ref1.ok /\ sorted))
      p1 == PassFails(f, a, out, functional, e.fast, limit, dom1)
      novf2 == e.pass2 /\ NoOverflow(f, out)
      ref2 == IF novf2 /\ e.fast THEN RenormRun(f, out, "ideal") ELSE NoRun
      dom2 == dom1 /\ p1 = {} /\ novf2 /\ (e.fast => (ref2.ok /\ Sorted(f, out)))
      p2 == IF e.pass2 THEN Suffix2(PassFails(f, out, e.out2, functional, e.fast, limit, dom2)) ELSE {}
      nf1 == AllFinite(f, out) /\ NF(f, out)
      nfbad == dom1 /\ p1 = {} /\ ~nf1 /\ dom2 /\ p2 = {} /\ ~NF(f, e.out2)
      want == IF functional THEN Pad(f, Take(ref1.out, limit), Min(limit, Len(a))) ELSE Take(ref1.out, limit)
      \* the known behaviour for unsorted input: two passes are not enough, but ITERATING the renormalisation
      \* (Len(a) + 1 further passes, logged as out3) reaches the normal form; a renormalisation that never gets
      \* there is keyed apart
      third == Has(e, "out3") /\ e.out3 # <<>> /\ AllFinite(f, e.out3) /\ NF(f, e.out3)
  IN  [fails |-> p1 \cup p2 \cup (IF nfbad THEN {IF sorted THEN "nf_sorted_input"
                                               ELSE IF third THEN "nf_unsorted_input" ELSE "nf_unsorted_input_never"} ELSE {}),
       notes |-> (IF ~novf1 THEN {"ood_overflow"} ELSE {})
                 \cup (IF novf1 /\ e.fast /\ ~(ref1.ok /\ sorted) THEN {"ood_fast"} ELSE {})
                 \cup (IF novf1 /\ e.fast /\ ~ref1.ok /\ sorted /\ AllFinite(f, out)
                          /\ NotTruncated(f, Len(a), out, limit) /\ ~DEq(Sum(f, out), Sum(f, a))
                       THEN {"fast_sorted_sum_changed"} ELSE {})
                 \cup (IF a # <<>> /\ AllFinite(f, out) /\ ~NotTruncated(f, Len(a), out, limit) THEN {"truncated"} ELSE {})
                 \cup (IF dom1 /\ p1 = {} /\ ~nf1 THEN {"second_pass"} ELSE {})
                 \cup (IF e.dr /\ dom1 /\ ~SameVals(f, out, want) THEN {"drift"} ELSE {})
                 \cup (IF e.rel # <<>> /\ ~ShapeHolds(f, e.skel, e.rel) THEN {"shape_mismatch"} ELSE {})
                 \cup (IF e.zsum /\ ~(AllFinite(f, a) /\ DIsZero(Sum(f, a))) THEN {"zsum_mismatch"} ELSE {})]

NegAll(f, b) == [i \in 1..Len(b) |-> FNeg(f, b[i])]

AddVerdict(e) ==
  LET f == FmtOf(e.fmt)
      c == e.a \o (IF e.op = "sub" THEN NegAll(f, e.b) ELSE e.b)
      functional == e.variant # "eager"
      limit == Limit(f, e.size, TRUE)
      novf == c # <<>> /\ NoOverflow(f, c)
      fok == IF novf /\ e.fast THEN FastOK(f, c) ELSE FALSE
      dom == novf /\ (e.fast => (fok /\ Sorted(f, c)))
  IN  [fails |-> PassFails(f, c, e.out, functional, e.fast, limit, dom),
       notes |-> (IF ~novf THEN {"ood_overflow"} ELSE {})
                 \cup (IF novf /\ e.fast /\ ~(fok /\ Sorted(f, c)) THEN {"ood_fast"} ELSE {})
                 \cup (IF c # <<>> /\ AllFinite(f, e.out) /\ ~NotTruncated(f, Len(c), e.out, limit) THEN {"truncated"} ELSE {})]

MulVerdict(e) ==
  LET f == FmtOf(e.fmt)
      a == e.a
      b == IF e.op = "sq" THEN e.a ELSE e.b
      out == e.out
      functional == e.variant # "eager"
      limit == Limit(f, e.size, TRUE)
      dom == MulDomain(f, a, b)
      fin == AllFinite(f, out)
      err == DAbs(DSub(Sum(f, out), DMul(Sum(f, a), Sum(f, b))))
      lead == IF out = <<>> THEN PosZero(f) ELSE out[1]
      bad == dom /\ fin /\ ~DLt(err, UlpD(f, lead))
      cut == fin /\ NNZ(f, out) >= limit
      nfops == dom /\ NF(f, a) /\ NF(f, b)
      tpbad == \E i \in 1..Len(e.tp) :
                  LET t == e.tp[i]
                  IN  /\ IsFinite(f, t[3]) /\ IsFinite(f, t[4])
                      /\ ~DEq(DAdd(Val(f, t[3]), Val(f, t[4])), DMul(Val(f, t[1]), Val(f, t[2])))
      name(c) == IF tpbad THEN c \o "_two_prod_inexact" ELSE c
  IN  [fails |-> (IF Len(out) > limit THEN {"length"} ELSE {})
                 \cup (IF functional /\ fin /\ ~ZerosRight(f, out) THEN {"zeros_right"} ELSE {})
                 \cup (IF dom /\ ~fin THEN {"nonfinite"} ELSE {})
                 \cup (IF bad THEN {name(IF nfops THEN "ulp_bound_nf_operands"
                                         ELSE IF cut THEN "ulp_bound_raw_operands_truncated"
                                         ELSE "ulp_bound_raw_operands")} ELSE {}),
       notes |-> (IF ~dom THEN {"ood_product"} ELSE {})
                 \cup (IF nfops THEN {"nf_operands"} ELSE {})
                 \cup (IF dom /\ fin /\ cut THEN {"truncated"} ELSE {})
                 \cup (IF dom /\ fin /\ ~cut /\ ~DIsZero(err) THEN {"inexact"} ELSE {})]

Verdict(e) ==
  IF e.raised # "" THEN [fails |-> {"raised"}, notes |-> {}]
  ELSE IF e.op = "renorm" THEN RenormVerdict(e)
  ELSE IF e.op \in {"add", "sub"} THEN AddVerdict(e)
  ELSE MulVerdict(e)

Init == l = 1
Next == /\ l <= Len(Trace)
        /\ LET e == Trace[l]
               v == Verdict(e)
           IN  /\ Report(e, v.fails)
               /\ (IF v.notes = {} THEN TRUE ELSE PrintT(<<"NOTE", e.id, v.notes>>))
        /\ l' = l + 1
Spec == Init /\ [][Next]_l
=============================================================================
