------------------------------ MODULE FATypes -------------------------------
(***************************************************************************)
(* C08: the static type discipline of the expression IR and the dtype that *)
(* the emitted NumPy text produces, stated side by side.                   *)
(*                                                                         *)
(* A STATIC type is <<kind, bits>> with kind in {"boolean", "integer",     *)
(* "float", "complex"} and bits = 0 for an unsized type (the package's     *)
(* bits = None: `float`, `int`, `complex`, `bool` annotations and the      *)
(* types of constants created without a like expression).                  *)
(* A RUN-TIME dtype is <<c, bits>> with c the NumPy kind character         *)
(* ("b" bool, "i" signed integer, "f" float, "c" complex) and bits =       *)
(* 8 * itemsize.                                                           *)
(*                                                                         *)
(*  TMax, ComplexPart   the type lattice (typesystem.Type.max /            *)
(*                      .complex_part as designed: the widest KIND wins,   *)
(*                      the width is the largest width among the operands  *)
(*                      OF THAT KIND)                                      *)
(*  TypeOf(k, ts)       the inference design, one row per kind set         *)
(*  WellTyped(k, ts)    the typing discipline of the IR: which operand     *)
(*                      types a kind accepts (programs outside it are not  *)
(*                      generated and not judged)                          *)
(*  DtypeOf(t)          the dtype a declaration / cast / constant of       *)
(*                      static type t materialises as                      *)
(*  NpResult(k, ts, ds) the SET of dtypes NumPy's documented promotion     *)
(*                      (NEP 50: typed scalars promote like arrays)        *)
(*                      allows for the call form the NumPy printer emits   *)
(*                      for kind k on operands of run-time dtypes ds       *)
(*                      (ts: their static types, used by the casts that    *)
(*                      the printer chooses statically).  {} = the form    *)
(*                      raises or is not modelled (never judged).          *)
(* TypeOf is written from the inference tables, NpResult from NumPy's      *)
(* promotion rules; they are deliberately independent, MC_Types compares   *)
(* them.                                                                   *)
(***************************************************************************)
EXTENDS Naturals, Sequences, FiniteSets, TLC

Max2(a, b) == IF a >= b THEN a ELSE b
SetMax(S) == CHOOSE m \in S : \A n \in S : n <= m

(*************************** static types **********************************)
TBool == <<"boolean", 0>>
TInt == <<"integer", 0>>
TFloat(b) == <<"float", b>>
TComplex(b) == <<"complex", b>>

Rank(k) == CASE k = "boolean" -> 0 [] k = "integer" -> 1 [] k = "float" -> 2 [] k = "complex" -> 3 [] OTHER -> 4

IsBool(t) == t[1] = "boolean"
IsInt(t) == t[1] = "integer"
IsFloat(t) == t[1] = "float"
IsCplx(t) == t[1] = "complex"
IsFC(t) == IsFloat(t) \/ IsCplx(t)
IsNum(t) == IsInt(t) \/ IsFC(t)
IsReal(t) == IsInt(t) \/ IsFloat(t)

TMax(s, t) ==
  IF s = t THEN s
  ELSE LET k == IF Rank(s[1]) >= Rank(t[1]) THEN s[1] ELSE t[1]
           bs == {u[2] : u \in {x \in {s, t} : x[1] = k /\ x[2] # 0}}
       IN  <<k, IF bs = {} THEN 0 ELSE SetMax(bs)>>

ComplexPart(t) == <<"float", t[2] \div 2>>

(*************************** kinds *****************************************)
RelKinds == {"lt", "le", "gt", "ge", "eq", "ne"}
OrderKinds == {"lt", "le", "gt", "ge"}
Logical2 == {"logical_and", "logical_or", "logical_xor"}
BoolResultKinds == RelKinds \cup Logical2 \cup {"is_finite"}
MathKinds == {"sqrt", "asin", "acos", "atan", "asinh", "acosh", "atanh", "sinh", "cosh", "tanh", "sin", "cos", "tan",
              "log", "log1p", "log2", "log10", "exp", "exp2", "expm1"}
\* (copysign moved to MaxOfTwoKinds by repo commit 86e5e01)
SameAsFirstKinds == MathKinds \cup {"positive", "negative", "square", "ceil", "floor", "logical_not", "sign", "conjugate"}
ArithKinds == {"add", "subtract", "multiply", "divide"}
MaxOfTwoKinds == ArithKinds \cup {"pow", "maximum", "minimum", "hypot", "atan2", "copysign"}
PartKinds == {"absolute", "real", "imag"}
LeafKinds == {"symbol", "constant"}
OpKinds == BoolResultKinds \cup SameAsFirstKinds \cup MaxOfTwoKinds \cup PartKinds \cup {"select", "complex", "upcast", "downcast"}

Arity(k) == CASE k \in LeafKinds -> 0
              [] k = "select" -> 3
              [] k \in RelKinds \cup Logical2 \cup MaxOfTwoKinds \cup {"copysign", "complex"} -> 2
              [] OTHER -> 1

(*************************** the inference design **************************)
\* ts: static types of the operands (for a leaf: the declared type / the type of the like)
TypeOf(k, ts) ==
  CASE k \in LeafKinds -> ts[1]
    [] k \in BoolResultKinds -> TBool
    [] k \in SameAsFirstKinds -> ts[1]
    [] k \in MaxOfTwoKinds -> TMax(ts[1], ts[2])
    [] k \in PartKinds -> IF IsCplx(ts[1]) THEN ComplexPart(ts[1]) ELSE ts[1]
    [] k = "select" -> TMax(ts[2], ts[3])
    [] k = "complex" -> <<"complex", 2 * TMax(ts[1], ts[2])[2]>>
    [] k = "upcast" -> <<ts[1][1], 2 * ts[1][2]>>
    [] k = "downcast" -> <<ts[1][1], ts[1][2] \div 2>>
    [] OTHER -> <<"unknown", 0>>

(*************************** typing discipline *****************************)
SomeFC(s, t) == IsFC(s) \/ IsFC(t)
WellTyped(k, ts) ==
  CASE k \in ArithKinds -> IsNum(ts[1]) /\ IsNum(ts[2]) /\ SomeFC(ts[1], ts[2])
    [] k = "pow" -> IsFC(ts[1]) /\ IsNum(ts[2])
    [] k \in {"maximum", "minimum", "hypot", "copysign", "atan2"} \cup OrderKinds ->
           IsReal(ts[1]) /\ IsReal(ts[2]) /\ (IsFloat(ts[1]) \/ IsFloat(ts[2]))
    [] k \in {"eq", "ne"} -> IsNum(ts[1]) /\ IsNum(ts[2]) /\ SomeFC(ts[1], ts[2])
    [] k \in Logical2 -> IsBool(ts[1]) /\ IsBool(ts[2])
    [] k = "logical_not" -> IsBool(ts[1])
    [] k \in {"ceil", "floor"} -> IsFloat(ts[1])
    [] k \in MathKinds \cup {"positive", "negative", "square", "sign", "conjugate", "is_finite"} \cup PartKinds -> IsFC(ts[1])
    [] k = "select" -> /\ IsBool(ts[1])
                       /\ \/ IsBool(ts[2]) /\ IsBool(ts[3])
                          \/ IsNum(ts[2]) /\ IsNum(ts[3]) /\ SomeFC(ts[2], ts[3])
    \* make_complex of the emitted header accepts float32/float64 components only
    [] k = "complex" -> IsFloat(ts[1]) /\ IsFloat(ts[2]) /\ ts[1][2] \in {32, 64} /\ ts[2][2] \in {32, 64}
    \* casts the printer has a target type for, staying within 16..64 / 64..128 bits
    [] k = "upcast" -> (IsFloat(ts[1]) /\ ts[1][2] \in {16, 32}) \/ (IsCplx(ts[1]) /\ ts[1][2] = 64)
    [] k = "downcast" -> (IsFloat(ts[1]) /\ ts[1][2] \in {32, 64}) \/ (IsCplx(ts[1]) /\ ts[1][2] = 128)
    [] OTHER -> FALSE

(*************************** run-time dtypes *******************************)
DBool == <<"b", 8>>
DtypeOf(t) ==
  CASE IsBool(t) -> DBool
    [] IsInt(t) -> <<"i", IF t[2] = 0 THEN 64 ELSE t[2]>>
    [] IsFloat(t) -> <<"f", IF t[2] = 0 THEN 64 ELSE t[2]>>
    [] IsCplx(t) -> <<"c", IF t[2] = 0 THEN 128 ELSE t[2]>>
    [] OTHER -> <<"?", 0>>

\* smallest float that holds every value of a signed integer of n bits (NumPy's promotion table)
FloatForInt(n) == IF n <= 8 THEN 16 ELSE IF n <= 16 THEN 32 ELSE 64

\* numpy.promote_types on bool / signed int / float / complex
Promote(a, b) ==
  IF a = b THEN a
  ELSE IF a[1] = "b" THEN b
  ELSE IF b[1] = "b" THEN a
  ELSE IF a[1] = b[1] THEN <<a[1], Max2(a[2], b[2])>>
  ELSE LET cs == {a[1], b[1]}
           bitsOf(c) == IF a[1] = c THEN a[2] ELSE b[2]
       IN  IF cs = {"i", "f"} THEN <<"f", Max2(bitsOf("f"), FloatForInt(bitsOf("i")))>>
           ELSE IF cs = {"i", "c"} THEN <<"c", Max2(bitsOf("c"), 2 * FloatForInt(bitsOf("i")))>>
           ELSE IF cs = {"f", "c"} THEN <<"c", Max2(bitsOf("c"), 2 * bitsOf("f"))>>
           ELSE <<"?", 0>>

IsInexact(d) == d[1] \in {"f", "c"}
\* true division of two integers / bools is computed in float64
DivLoop(d) == IF d[1] \in {"b", "i"} THEN <<"f", 64>> ELSE d

\* a ufunc without an integer loop computes integers in the smallest float holding them (int64 -> float64)
FloatLoop(d) == IF d[1] = "i" THEN <<"f", FloatForInt(d[2])>> ELSE d

NpResult(k, ts, ds) ==
  CASE k \in LeafKinds -> {DtypeOf(ts[1])}                      \* `numpy.T(value)`, `x = numpy.T(x)`
    [] k \in BoolResultKinds -> {DBool}                          \* numpy.less(...), numpy.logical_and(...), numpy.isfinite
    [] k = "logical_not" -> {DBool}
    [] k \in {"add", "subtract", "multiply", "pow"} -> {Promote(ds[1], ds[2])}
    [] k = "divide" -> {DivLoop(Promote(ds[1], ds[2]))}
    [] k \in {"maximum", "minimum"} -> {ds[1], ds[2]}            \* Python max/min returns one of its arguments
    [] k \in {"hypot", "copysign", "atan2"} -> IF ds[1][1] = "b" /\ ds[2][1] = "b" THEN {} ELSE {FloatLoop(Promote(ds[1], ds[2]))}
    [] k \in PartKinds -> {IF ds[1][1] = "c" THEN <<"f", ds[1][2] \div 2>> ELSE ds[1]}   \* numpy.abs, .real, .imag
    [] k \in MathKinds -> IF ds[1][1] = "b" THEN {} ELSE {FloatLoop(ds[1])}
    [] k \in {"ceil", "floor"} -> IF ds[1][1] \in {"f", "i"} THEN {ds[1]} ELSE {}   \* integers pass through (NumPy >= 2.1)
    [] k \in {"positive", "negative", "square", "sign", "conjugate"} -> IF ds[1][1] = "b" THEN {} ELSE {ds[1]}
    [] k = "select" -> {Promote(ds[2], ds[3])}                   \* numpy.where(c, a, b)
    [] k = "complex" -> IF ds[1] = <<"f", 32>> /\ ds[2] = <<"f", 32>> THEN {<<"c", 64>>}      \* make_complex of the header
                        ELSE IF ds[2] = <<"f", 64>> /\ ds[1][1] \in {"b", "i", "f"} THEN {<<"c", 128>>} ELSE {}
    \* the cast is chosen from the STATIC type of the operand: numpy.float64(x) for a float32 x
    [] k = "upcast" -> LET d == DtypeOf(ts[1]) IN {<<d[1], 2 * d[2]>>}
    [] k = "downcast" -> LET d == DtypeOf(ts[1]) IN {<<d[1], d[2] \div 2>>}
    [] OTHER -> {}

(*************************** leaf types of the scope ***********************)
SymTypes == {TFloat(16), TFloat(32), TFloat(64), TComplex(64), TComplex(128)}
\* constants created without a like: Python int / float / complex / bool literals
UnlikedTypes == {TInt, TFloat(0), TComplex(0), TBool}
LeafTypes == SymTypes \cup UnlikedTypes
=============================================================================
