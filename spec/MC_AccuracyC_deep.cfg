\* U1 (thorough): grid (j + ik)/4 * 2^s, |j|,|k| <= 8, s in {-40, 0, 30}, W in {48, 80}; toy format (p 3, emax 3, w 6) on all 58 non-NaN patterns per component
SPECIFICATION Spec
CONSTANTS
  GridN = 8
  GridShift = 2
  Scales <- ScalesDeep
  Ws = {48, 80}
  TP = 3
  TEMAX = 3
  TW = 6
  ToyFull = TRUE
  Sabotage = 0
INVARIANT LawsOK
INVARIANT Count
CHECK_DEADLOCK FALSE
