---------------------------- MODULE PrinterTerms ----------------------------
(***************************************************************************)
(* Generator of graphs for the printer checks (C05, reusable by C06): TLC  *)
(* enumerates / samples terms, the driver builds each in the real package  *)
(* (hash-consing turns repeated sub-terms into shared DAG nodes), prints   *)
(* it for every target that accepts it and validates the text.             *)
(* (FATerms.tla - untyped float terms - and TypedTerms.tla - typed terms - *)
(* are used by the same driver unchanged; this module adds what they lack: *)
(* every kind of the Implements tables incl. integer / bitwise kinds,      *)
(* every named constant, special constant values, sharing patterns and     *)
(* reference-name policies.)                                               *)
(*                                                                         *)
(* Terms: <<kind, operand, ...>> with leaves                               *)
(*   <<"sym", name, cls>>     cls in {"F", "C", "I", "B"}: float, complex, *)
(*                            integer, boolean (the driver picks the       *)
(*                            dtype of the class per target / variant)     *)
(*   <<"num", value, like>>   numeric constant `like` a term (value is a   *)
(*                            name the driver maps: "2", "0.1", "-0.0",    *)
(*                            "inf", "nan", "int:3", "1e-300", ...)        *)
(*   <<"named", name, like>>  named constant                               *)
(*   <<"bool", b>>                                                         *)
(* and the wrapper <<"ref", name, force, term>> = term.reference(name,     *)
(* force): the user-visible naming policy of the printer.                  *)
(*                                                                         *)
(*   Gen = "kinds"   every kind of FAPrinter!AllKinds with operands of     *)
(*                   every class it is typed for, variables / constants    *)
(*   Gen = "consts"  every named constant and special value, inline and    *)
(*                   referenced, as operand and as result                  *)
(*   Gen = "dags"    every sharing pattern of <= 3 operations x reference  *)
(*                   policies (forced, unforced, clashing names, names     *)
(*                   equal to a parameter / to the printer's own `result`) *)
(*   Gen = "random"  NumRandom pseudo-random terms of depth <= MaxDepth    *)
(*                   with shared sub-terms and references, reproducible    *)
(*                   from the constant Seed                                *)
(***************************************************************************)
EXTENDS FAPrinter

CONSTANTS Gen, NumRandom, MaxDepth, Seed

Sym(n, c) == <<"sym", n, c>>
Num(v, like) == <<"num", v, like>>
Named(n, like) == <<"named", n, like>>
Ref(name, force, t) == <<"ref", name, force, t>>
X == Sym("x", "F")
Y == Sym("y", "F")
Z == Sym("z", "C")
W == Sym("w", "C")
I == Sym("i", "I")
J == Sym("j", "I")
Bb == Sym("b", "B")
Cc == Sym("c", "B")

(*************************** "kinds" ***************************************)
FloatUnary == SameName1 \cup Inverse1 \cup {"exp2", "absolute", "negative", "positive", "square", "sign", "round", "truncate", "is_finite",
                                            "upcast", "downcast"}
ComplexUnary == {"absolute", "negative", "positive", "square", "conjugate", "real", "imag", "sqrt", "exp", "log", "log1p", "log2", "log10",
                 "sin", "cos", "tan", "sinh", "cosh", "tanh", "asin", "acos", "atan", "asinh", "acosh", "atanh", "is_finite", "upcast", "downcast"}
FloatBinary == ArithKinds \cup {"remainder", "floor_divide", "pow", "maximum", "minimum", "atan2", "copysign", "hypot", "nextafter"}
ComplexBinary == ArithKinds \cup {"pow"}
IntUnary == {"bitwise_invert", "negative", "absolute"}
IntBinary == BitKinds \cup {"add", "subtract", "multiply", "remainder", "floor_divide", "maximum", "minimum"}
KindTerms ==
     {<<k, a>> : k \in FloatUnary, a \in {X, Num("2", X)}}
  \cup {<<k, a>> : k \in ComplexUnary, a \in {Z}}
  \cup {<<k, a, b>> : k \in FloatBinary, a \in {X, Num("3", X)}, b \in {Y, X, Num("2", X)}}
  \cup {<<k, a, b>> : k \in ComplexBinary, a \in {Z, X}, b \in {W, Y, Num("2", Z)}}
  \cup {<<k, a>> : k \in IntUnary, a \in {I}}
  \cup {<<k, a, b>> : k \in IntBinary, a \in {I}, b \in {J, Num("int:3", I)}}
     \* integer constants beyond the int / double-exact ranges in integer-typed graphs
  \cup {<<k, I, Num(v, I)>> : k \in {"add", "subtract", "bitwise_and", "remainder", "maximum"}, v \in {"int:2^53+1", "int:2^31", "int:-2^31-1"}}
  \cup {<<k, a, b>> : k \in RelKinds, a \in {X, Num("0", X)}, b \in {Y, Num("1", X)}}
  \cup {<<k, a, b>> : k \in {"eq", "ne"}, a \in {Z}, b \in {W}}
  \cup {<<k, a, b>> : k \in {"logical_and", "logical_or", "logical_xor"}, a \in {Bb, <<"lt", X, Y>>}, b \in {Cc, <<"bool", TRUE>>}}
  \cup {<<"logical_not", a>> : a \in {Bb, <<"lt", X, Y>>}}
  \cup {<<"select", c, a, b>> : c \in {Bb, <<"lt", X, Y>>}, a \in {X, Num("1", X), Z}, b \in {Y, Num("2", X), W}}
  \cup {<<"complex", a, b>> : a \in {X, Num("1", X)}, b \in {Y, X}}

(*************************** "consts" **************************************)
Names == KnownNames
Values == {"0", "1", "-1", "2", "0.5", "0.1", "-0.0", "1.5", "1e-300", "1e300", "1e-40", "1e30", "3.4028235e38", "16777217",
           "inf", "-inf", "nan", "int:0", "int:1", "int:3", "int:-2", "int:big", "sqrt2_32", "third_32", "third_64", "pi_64"}
ConstLeaves == {Named(n, X) : n \in Names} \cup {Num(v, X) : v \in Values}
ConstTerms ==
     {<<"add", X, c>> : c \in ConstLeaves} \cup {<<"multiply", c, X>> : c \in ConstLeaves}
  \cup {<<"lt", X, c>> : c \in ConstLeaves} \cup {<<"select", Bb, c, X>> : c \in ConstLeaves}
  \cup {<<"add", <<"multiply", X, c>>, c>> : c \in ConstLeaves}                     \* used twice: referenced
  \cup {<<"add", X, Ref("k", TRUE, c)>> : c \in ConstLeaves}                         \* forced reference
  \cup {<<"subtract", Num("0.1", X), Num("0.1", Y)>>, <<"subtract", <<"add", X, Num("2", X)>>, <<"multiply", Y, Num("2", Y)>>>>,
        <<"divide", Num("int:1", X), Num("int:3", X)>>, <<"multiply", <<"divide", Num("int:1", X), Num("int:3", X)>>, X>>,
        <<"add", <<"add", X, Num("2", X)>>, <<"add", <<"add", Y, Num("2", Y)>>, <<"add", Num("2", X), Num("2", Y)>>>>>>}
  \cup {<<"add", Z, Num(v, Z)>> : v \in {"1", "0.5", "cplx"}}
     \* complex constants whose parts are confusable with their neighbours: a zero part of either sign
  \cup {<<k, Z, Num(v, Z)>> : k \in {"add", "multiply"}, v \in {"cplx_nzim", "cplx_nzre", "cplx_pzim"}}

(*************************** "dags" ****************************************)
U1 == {"negative", "sqrt", "absolute"}
B1 == {"add", "subtract", "multiply", "maximum", "lt"}
Shared == {<<j, X>> : j \in U1} \cup {<<"add", X, Y>>, <<"multiply", X, Num("2", X)>>}
Policies(s, t) ==   \* s, t: two sub-terms; every naming policy for them
  {<<s, t>>, <<Ref("a", TRUE, s), t>>, <<Ref("a", FALSE, s), t>>, <<Ref("a", TRUE, s), Ref("a", TRUE, t)>>,
   <<Ref("a", FALSE, s), Ref("a", FALSE, t)>>, <<Ref("x", TRUE, s), t>>, <<Ref("y", TRUE, s), Ref("x", TRUE, t)>>,
   <<Ref("result", TRUE, s), t>>, <<Ref("a", TRUE, s), Ref("b", TRUE, t)>>, <<s, Ref("a_", TRUE, t)>>}
DagTerms ==
     \* one shared sub-term used twice / three times
     UNION {{<<k, p[1], p[1]>> : p \in Policies(s, s)} : k \in B1, s \in Shared}
  \cup UNION {{<<k, <<"subtract", p[1], Y>>, <<"multiply", p[1], p[1]>>>> : p \in Policies(s, s)} : k \in {"add", "lt"}, s \in Shared}
     \* two different sub-terms, each used once or twice, same / different names
  \cup UNION {{<<k, p[1], p[2]>> : p \in Policies(s, t)} : k \in {"subtract", "lt"}, s \in Shared, t \in Shared}
  \cup UNION {{<<k, <<"add", p[1], p[2]>>, <<"multiply", p[2], p[1]>>>> : p \in Policies(s, t)} : k \in {"subtract"}, s \in Shared, t \in Shared}
     \* a shared term inside a shared term; the root itself referenced
  \cup UNION {{<<"add", <<"multiply", p[1], p[1]>>, <<"sqrt", <<"multiply", p[1], p[1]>>>>>> : p \in Policies(s, s)} : s \in Shared}
  \cup UNION {{Ref("r", TRUE, <<k, p[1], p[2]>>) : p \in Policies(s, t)} : k \in {"add"}, s \in {<<"negative", X>>}, t \in {<<"sqrt", Y>>, <<"negative", X>>}}
  \cup UNION {{<<"select", <<"lt", p[1], p[2]>>, p[1], p[2]>> : p \in Policies(s, t)} : s \in {<<"negative", X>>, X}, t \in {<<"absolute", Y>>}}

(*************************** "random" **************************************)
\* Deterministic pseudo-random terms: every draw is a hash of (Seed, term number, position in the term),
\* so the same Seed gives the same terms (TLC's RandomElement is not reproducible in model-checking mode).
Mix(h, x) == (h * 31 + x + 7) % 30011
Draw(h, k) == (Mix(Mix(Mix(h, 17), 5), 29) % k) + 1              \* in 1..k
At(seq, h) == seq[Draw(h, Len(seq))]
RNames == <<"a", "a", "b", "t", "x", "result", "k_">>
RFLeaves == <<X, Y, Num("2", X), Num("0.5", Y), Num("0.1", X), Named("largest", X), Named("eps", Y), Num("int:3", X), X, Y, Num("int:0", X), Num("-1", Y), Num("int:1", X)>>
RBLeaves == <<Bb, <<"lt", X, Y>>, <<"bool", TRUE>>>>
RU == <<"negative", "sqrt", "absolute", "square", "exp", "log1p", "floor">>
RB == <<"add", "subtract", "multiply", "divide", "maximum", "minimum", "atan2", "hypot">>
RRel == <<"lt", "le", "gt", "ge", "eq", "ne">>
MaybeRef(t, h) == LET c == Draw(Mix(h, 3), 6)  nm == At(RNames, Mix(h, 4))
                  IN  IF c = 1 THEN Ref(nm, TRUE, t) ELSE IF c = 2 THEN Ref(nm, FALSE, t) ELSE t
RECURSIVE RandF(_, _), RandB(_, _)
RandF(d, h) ==
  IF d = 0 THEN At(RFLeaves, h)
  ELSE LET c == Draw(Mix(h, 1), 10)
           k1 == At(RU, Mix(h, 2))
           k2 == At(RB, Mix(h, 6))
           a == RandF(d - 1, Mix(h, 11))
           b == RandF(d - 1, Mix(h, 13))
           p == RandB(d - 1, Mix(h, 19))
       IN  CASE c <= 1 -> At(RFLeaves, Mix(h, 8))
             [] c <= 3 -> MaybeRef(<<k1, a>>, h)
             [] c <= 6 -> MaybeRef(<<k2, a, b>>, h)
             [] c <= 8 -> MaybeRef(<<k2, a, a>>, h)                         \* shared operand
             [] c <= 9 -> <<k2, <<k1, a>>, <<"multiply", a, b>>>>           \* shared below
             [] OTHER -> <<"select", p, a, b>>
RandB(d, h) ==
  IF d = 0 THEN At(RBLeaves, h)
  ELSE LET c == Draw(Mix(h, 1), 7)
           a == RandF(d - 1, Mix(h, 11))
           b == RandF(d - 1, Mix(h, 13))
           p == RandB(d - 1, Mix(h, 19))
           q == RandB(d - 1, Mix(h, 23))
       IN  CASE c <= 1 -> At(RBLeaves, Mix(h, 8))
             [] c <= 4 -> <<At(RRel, Mix(h, 2)), a, b>>
             [] c <= 5 -> <<"logical_and", p, q>>
             [] c <= 6 -> <<"logical_or", p, q>>
             [] OTHER -> <<"logical_not", p>>
RandomTerm(i) == LET h == Mix(Mix(Mix(Seed % 30011, i % 30011), i \div 30011), 101) IN RandF(2 + Draw(Mix(h, 37), MaxDepth - 1), h)

(*************************** emission ***************************************)
VARIABLE n
TermSet == CASE Gen = "kinds" -> KindTerms [] Gen = "consts" -> ConstTerms [] Gen = "dags" -> DagTerms [] OTHER -> {}
Init == n = 0
Next == \/ /\ Gen # "random" /\ n = 0 /\ n' = 1
           /\ \A t \in TermSet : PrintT(<<"H", t>>)
        \/ /\ Gen = "random" /\ n < NumRandom /\ n' = n + 1
           /\ LET t == RandomTerm(n + 1) IN IF t[1] \in {"sym", "num", "named"} THEN TRUE ELSE PrintT(<<"H", t>>)
Spec == Init /\ [][Next]_n
=============================================================================
