\* exhaustive: all histories of <= 4 constructions over 3 symbols, 14 Python values
\* (0.0, -0.0, 0, 1, 1.0, True, numpy scalars, two NaN objects, a named constant), kinds
\* negative/subtract/lt, at most 2 constants per history
SPECIFICATION Spec
CONSTANTS
  Values <- MC_Values
  Symbols <- MC_Symbols
  Kinds <- MC_Kinds
  SignInKey = FALSE
  MaxSteps = 4
  MaxConst = 2
INVARIANT NoAlias
INVARIANT Canonical
CHECK_DEADLOCK FALSE
