\* history export: 2 objects, 18 requests, nesting <= 2; MaxLevel set per run
SPECIFICATION HSpec
CONSTANTS
  Objs <- MC_Objs2
  ReqSet <- MC_ReqSmall
  InitRegs <- MC_InitRegs
  DesiredAt = "enter"
  MaxDepth = 2
  MaxLevel = 5
CONSTRAINT HBounded
INVARIANT Emit
CHECK_DEADLOCK FALSE
