\* U1 of C19 (thorough): toy format [p=3, emax=3, w=6] (56 finite patterns), sizes up to 40
CONSTANTS
  Sizes = {6, 7, 8, 9, 10, 11, 12, 13, 16, 20, 27, 40}
  Mutant = "none"
  Wide = TRUE
SPECIFICATION Spec
INVARIANT Post
POSTCONDITION Stats
CHECK_DEADLOCK FALSE
