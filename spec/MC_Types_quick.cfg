\* U1 of C08 (quick): DAGs of at most 2 operation nodes over one representative kind per table row
\* (MC_Types!RepKinds, 23 kinds), leaf types FATypes!LeafTypes; the disagreement list AllDIS ranges over all 52 kinds.
\* MC_Types.cfg (all kinds in the DAGs) and MC_Types_deep.cfg (3 nodes) run in the thorough tier.
SPECIFICATION Spec
CONSTANTS
  MaxNodes = 2
  AllKinds = FALSE
INVARIANTS Closed Listed CleanMatch
CHECK_DEADLOCK FALSE
