SPECIFICATION TSpec
CONSTANTS
  Objs = {1, 2, 3, 4, 5, 6}
  ReqSet = {}
  InitRegs = {}
  DesiredAt = "enter"
  MaxDepth = 100
  MaxLevel = 100
POSTCONDITION Consumed
CHECK_DEADLOCK FALSE
