\* NEGATIVE CONTROL (must be violated) of U1: enclosure laws of Reals.tla on the grid j/8, |j| <= 24 (binary laws: x k/2, |k| <= 6), W in {24, 96}
SPECIFICATION Spec
CONSTANTS
  GridN = 24
  GridShift = 3
  GridK = 6
  KStep = 4
  Ws = {24, 96}
  Only = {"nested", "mono", "shape"}
  Sabotage = 1
INVARIANT LawsOK
CHECK_DEADLOCK FALSE
