\* U1: toy format T4 = [p=4, emax=3, w=7]; mantissas of up to p+3 = 7 bits, exponents -15..5, both signs;
\* all ordered pairs of T4 patterns for the backend clauses
SPECIFICATION Spec
CONSTANTS
  ManBits = 7
  ExpLo <- MC_ExpLo
  ExpHi = 5
  PairMax = 127
  What = "u1"
INVARIANTS Nearest Bracket Monotone Symmetric Thresholds PrecRounding Satisfiable CodePasses DoubleRounded FlushWitness
           IdealPasses TwoStepClassified Witnesses
CHECK_DEADLOCK FALSE
