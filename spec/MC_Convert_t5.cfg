\* U1, toy format T5 = [p=5, emax=7, w=9]: all 512 bit patterns (one state each), pairwise
\* monotonicity over all finite pairs, all multiword chunk widths 1..5
SPECIFICATION Spec
CONSTANTS
  Fmt <- T5
INVARIANT OracleInv
INVARIANT ParserInv
INVARIANT FracInv
INVARIANT MultiwordInv
POSTCONDITION Done
CHECK_DEADLOCK FALSE
