---------------------------- MODULE Trace_Samples ----------------------------
(***************************************************************************)
(* C19 trace validation.  One event per line:                              *)
(*  op = "rs"    one real_samples call: arguments, raised, dtype, n and    *)
(*               either the whole array xs (n <= chunk size) or sums, the  *)
(*               chunk summaries this spec printed for its chunk events    *)
(*  op = "chunk" one chunk of the array of a large call (with the call's   *)
(*               arguments): element-level clauses are judged here and the *)
(*               summary is printed as <<"SUM", id, record>>; the harness  *)
(*               only transports it into the call's "rs" event             *)
(*  op = "prod"  one complex/pair/triple/complex-pair call with the 1-D    *)
(*               arrays, the shapes and (a sample of) the cells            *)
(* Clause names starting with "binding:" mean the recording is             *)
(* inconsistent (machinery), not that the property fails.                  *)
(* TLC wraps printed values wider than 80 columns and the harness reads    *)
(* FAIL lines one line at a time, so a failing event is reported with one  *)
(* short line per clause: <<"FAIL", id, {clause, tag}>> (tag = code path   *)
(* of the call, or the product kind).                                      *)
(***************************************************************************)
EXTENDS Samples, TraceKit
VARIABLE l

ReportEach(e, fails, tag) == \A cl \in fails : PrintT(<<"FAIL", e.id, {cl, tag}>>)

SumOfJson(s) == [n |-> s.n, first |-> s.first, last |-> s.last, gn |-> s.gn, gp |-> s.gp,
                 seen |-> RangeOf(s.seen), bad |-> {}]

RsEvent(e) ==
  LET f == FmtOf(e.fmt)
      c == Ctx(f, e)
      inline == Has(e, "xs")
      s1 == IF inline THEN ChunkSum(f, e, c, e.xs) ELSE GEmpty
      sums == IF inline THEN <<s1>> ELSE [k \in 1..Len(e.sums) |-> SumOfJson(e.sums[k])]
      fails == RsFails(f, e, c, e.raised, e.dtype, e.fmt, e.n, sums)
               \cup (IF inline /\ e.raised = "" THEN ChunkFails(f, e, c, s1) ELSE {})
      drift == /\ fails = {} /\ inline /\ e.raised = "" /\ Domain(f, e, c)
               /\ e.size <= 400 /\ ~SameAsGen(f, e, c, e.xs)
  IN  /\ ReportEach(e, fails, PathTag(f, e, c))
      /\ IF drift THEN Note(e, "drift") ELSE TRUE

ChunkEvent(e) ==
  LET f == FmtOf(e.fmt)
      c == Ctx(f, e)
      s == ChunkSum(f, e, c, e.xs)
  IN  /\ ReportEach(e, ChunkFails(f, e, c, s), PathTag(f, e, c))
      /\ PrintT(<<"SUM", e.id, [s EXCEPT !.bad = {}]>>)

Step(e) == CASE e.op = "rs" -> RsEvent(e)
             [] e.op = "chunk" -> ChunkEvent(e)
             [] e.op = "prod" -> ReportEach(e, ProdFails(e), "prod")

Init == l = 1
Next == /\ l <= Len(Trace)
        /\ Step(Trace[l])
        /\ l' = l + 1
Spec == Init /\ [][Next]_l
=============================================================================
