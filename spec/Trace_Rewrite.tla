---------------------------- MODULE Trace_Rewrite ---------------------------
(***************************************************************************)
(* Validation of recorded rewrites of the real rewriter against the IR     *)
(* semantics of FAIR.tla.  One event per rewritten term: t is the term the *)
(* driver built (projected from the real Expr), t2 the projection of what  *)
(* Expr.rewrite returned, fmt the float format of its symbols.             *)
(* Clauses (C04):                                                          *)
(*   raised  the rewrite call raised / did not terminate within the budget *)
(*   exact   some assignment on which t is defined in exact arithmetic     *)
(*           gives t2 undefined or a different value                       *)
(*   float   some assignment on which t evaluates in IEEE arithmetic       *)
(*           without NaN/overflow/underflow gives t2 a different result    *)
(*           (booleans identical, floats equal up to the sign of zero)     *)
(* Leniency: "exact" is judged only when every closed arithmetic sub-term  *)
(* consists of small dyadic numbers, because folding e.g. 0.1 + 0.2 or     *)
(* 2 - eps in floating point cannot be exact in real arithmetic and the    *)
(* statement cannot mean that; a numeric literal denotes its value in the  *)
(* type of its like.                                                        *)
(***************************************************************************)
EXTENDS FAIR, TraceKit
VARIABLE l

Fails(e) ==
  IF e.raised # "" THEN {"raised"}
  ELSE IF e.t = e.t2 THEN {}
  ELSE IF ~AllSupported(e.t) \/ ~AllSupported(e.t2) THEN {}
  ELSE LET f == FmtOf(e.fmt)
           envs == Envs(f, SymbolsOf(e.t) \cup SymbolsOf(e.t2))
           badq == ExactJudgeable(e.t) /\
                   \E env \in envs : LET a == EvalQ(f, e.t, env) b == EvalQ(f, e.t2, env)
                                     IN  a.def /\ ~(b.def /\ QSame(a, b))
           badf == \E env \in envs : LET a == EvalF(f, e.t, env) b == EvalF(f, e.t2, env)
                                     IN  ~a.exc /\ ~(~b.exc /\ FSame(f, a, b))
       IN  (IF badq THEN {"exact"} ELSE {}) \cup (IF badf THEN {"float"} ELSE {})

\* a witness assignment for a failing event (first found), printed as a NOTE
Witness(e) ==
  LET f == FmtOf(e.fmt)
      envs == Envs(f, SymbolsOf(e.t) \cup SymbolsOf(e.t2))
      bad(env) == \/ (ExactJudgeable(e.t) /\ LET a == EvalQ(f, e.t, env) b == EvalQ(f, e.t2, env)
                                         IN  a.def /\ ~(b.def /\ QSame(a, b)))
                  \/ LET a == EvalF(f, e.t, env) b == EvalF(f, e.t2, env)
                     IN  ~a.exc /\ ~(~b.exc /\ FSame(f, a, b))
  IN  CHOOSE env \in envs : bad(env)

Init == l = 1
Next == /\ l <= Len(Trace)
        /\ LET e == Trace[l]
               fl == Fails(e)
           IN  /\ Report(e, fl)
               /\ IF fl \cap {"exact", "float"} # {} THEN Note(e, Witness(e)) ELSE TRUE
               /\ IF e.raised = "" /\ e.t # e.t2 /\ (~AllSupported(e.t) \/ ~AllSupported(e.t2)) THEN Note(e, "unsupported") ELSE TRUE
        /\ l' = l + 1
Spec == Init /\ [][Next]_l
=============================================================================
