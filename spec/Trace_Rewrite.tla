---------------------------- MODULE Trace_Rewrite ---------------------------
(***************************************************************************)
(* Validation of recorded rewrites of the real rewriter against the IR     *)
(* semantics of FAIR.tla.  One event per rewritten term: t is the term the *)
(* driver built (projected from the real Expr), t2 the projection of what  *)
(* Expr.rewrite returned, fmt the float format of its symbols.             *)
(* Clauses (C04):                                                          *)
(*   raised  the rewrite call raised / did not terminate within the budget *)
(*   exact   some assignment on which t is defined in exact arithmetic     *)
(*           gives t2 undefined or a different value                       *)
(*   float   some assignment on which t evaluates in IEEE arithmetic       *)
(*           without NaN/overflow/underflow gives t2 a different result    *)
(*           (booleans identical, floats equal up to the sign of zero)     *)
(* Leniency: "exact" is judged only when every closed arithmetic sub-term  *)
(* consists of small dyadic numbers, because folding e.g. 0.1 + 0.2 or     *)
(* 2 - eps in floating point cannot be exact in real arithmetic and the    *)
(* statement cannot mean that; a numeric literal denotes its value in the  *)
(* type of its like.  float_updown = a float disagreement that disappears  *)
(* when upcast(downcast(x)) is read as x (classified, still reported).     *)
(***************************************************************************)
EXTENDS FAIR, TraceKit
VARIABLE l

\* exact clause: t judged with the strict select (defined on fewer assignments: fewer obligations), t2 with
\* the conditional-expression select (an unselected undefined branch, e.g. the 0/0 of an expanded hypot
\* at the origin, does not make t2 undefined); a value the semantics does not determine (un) is not judged
BadQ(f, t, t2, env) == LET a == EvalQ(f, t, env) b == EvalQLazy(f, t2, env)
                       IN  a.def /\ ~b.un /\ ~(b.def /\ QSame(a, b))
BadF(f, t, t2, env) == LET a == EvalF(f, t, env) b == EvalF(f, t2, env)
                       IN  ~a.exc /\ ~b.un /\ ~(~b.exc /\ FSame(f, a, b))

Fails(e) ==
  IF e.raised # "" THEN {"raised"}
  ELSE IF e.t = e.t2 THEN {}
  ELSE IF ~AllSupported(e.t) \/ ~AllSupported(e.t2) THEN {}
  ELSE LET f == FmtOf(e.fmt)
           envs == Envs(f, SymbolsOf(e.t) \cup SymbolsOf(e.t2))
           badq == ExactJudgeablePair(e.t, e.t2) /\ \E env \in envs : BadQ(f, e.t, e.t2, env)
           badf == \E env \in envs : BadF(f, e.t, e.t2, env)
           \* classification of a float disagreement: it disappears when every upcast(downcast(x)) of both
           \* terms is read as x (the known, deliberate rule of the rewriter)
           ud == badf /\ ElimUD(e.t) # e.t /\ ~\E env \in envs : BadF(f, ElimUD(e.t), ElimUD(e.t2), env)
       IN  (IF badq THEN {"exact"} ELSE {}) \cup (IF badf THEN {IF ud THEN "float_updown" ELSE "float"} ELSE {})

\* a witness assignment for a failing event (first found), printed as a NOTE
Witness(e) ==
  LET f == FmtOf(e.fmt)
      envs == Envs(f, SymbolsOf(e.t) \cup SymbolsOf(e.t2))
      bad(env) == (ExactJudgeablePair(e.t, e.t2) /\ BadQ(f, e.t, e.t2, env)) \/ BadF(f, e.t, e.t2, env)
  IN  CHOOSE env \in envs : bad(env)

Init == l = 1
Next == /\ l <= Len(Trace)
        /\ LET e == Trace[l]
               fl == Fails(e)
           IN  /\ Report(e, fl)
               /\ IF fl \cap {"exact", "float", "float_updown"} # {} THEN Note(e, Witness(e)) ELSE TRUE
               /\ IF e.raised = "" /\ e.t # e.t2 /\ (~AllSupported(e.t) \/ ~AllSupported(e.t2)) THEN Note(e, "unsupported") ELSE TRUE
        /\ l' = l + 1
Spec == Init /\ [][Next]_l
=============================================================================
