----------------------------- MODULE FAContext ------------------------------
(***************************************************************************)
(* The expression registry of a Context (hash-consing), as a state machine.*)
(*                                                                         *)
(* A construction request names a kind and already existing operand        *)
(* OBJECTS (node ids), or for a constant a Python value and a like object. *)
(* The code (Expr.__new__ then Context._register_expression) computes a    *)
(* key and returns the first registered node with an equal key.  The key   *)
(* of a constant is (value, type name, like key) compared with PYTHON      *)
(* equality, so 0.0 == -0.0, and nan is equal only to the same object.     *)
(* Other kinds use the two-level integer key of their operands.            *)
(*                                                                         *)
(* SignInKey = FALSE is the design of the pinned tree (constants 0.0 and   *)
(* -0.0 collide: MC_Context_nosign.cfg exhibits the aliasing); TRUE is the *)
(* design after the fix: commit.                                            *)
(***************************************************************************)
EXTENDS Naturals, Sequences, FiniteSets, TLC

CONSTANTS Values,      \* alphabet of Python values: [pt, num, neg, obj, nan]
          Symbols,     \* alphabet of symbols: [name, ty]
          Kinds,       \* [kind |-> arity] for operation kinds
          SignInKey,   \* does the constant key carry the sign of zero
          MaxSteps,    \* history length bound
          MaxConst     \* at most this many constant constructions per history

NoValue == [pt |-> "", num |-> "", neg |-> 0, obj |-> 0, nan |-> FALSE]
Node(kind, name, ty, value, like, ops) ==
  [kind |-> kind, name |-> name, ty |-> ty, value |-> value, like |-> like, ops |-> ops]
SymbolNode(s) == Node("symbol", s.name, s.ty, NoValue, 0, <<>>)
ConstNode(v, like) == Node("constant", "", "", v, like, <<>>)
OpNode(k, ops) == Node(k, "", "", NoValue, 0, ops)

VARIABLES nodes,   \* registered nodes in registration order (index - 1 = intkey)
          hist,    \* requests so far with the id each returned
          nconst
vars == <<nodes, hist, nconst>>

(*************************** Python value equality **************************)
VIsNaN(v) == v.nan
\* a == b in Python for the values of the alphabet: numeric equality across types
\* (1 == 1.0 == True, 0.0 == -0.0), nan equal only to the very same object, a string equal
\* only to the same string
PyEq(a, b) == IF VIsNaN(a) \/ VIsNaN(b) THEN VIsNaN(a) /\ VIsNaN(b) /\ a.obj = b.obj
              ELSE (a.pt = "str") = (b.pt = "str") /\ a.num = b.num
ValueKeyEq(a, b) == /\ PyEq(a, b)
                    /\ a.pt = b.pt
                    /\ SignInKey => a.neg = b.neg

\* The like of a constant is normalised (expr.normalize_like): a constant or select passes to its own like /
\* first branch, the kinds of PassFirst pass to their first operand; every other expression is kept.  The
\* reference type of the constant is the static type of the normalised like: the requested type for a symbol,
\* the type the package reports for an operation node (recorded in the node's ty by the trace spec; operation
\* nodes are likes only in simulation and in traces).
PassFirst == {"negative", "positive", "add", "subtract", "multiply", "divide", "maximum", "minimum", "acos", "acosh", "asin",
              "asinh", "atan", "atan2", "atanh", "cos", "cosh", "sin", "sinh", "tan", "tanh", "exp", "exp2", "expm1", "log",
              "log1p", "log2", "log10", "conj", "hypot", "sqrt", "square", "asin_acos_kernel"}
RECURSIVE LikeSym(_, _)
LikeSym(ns, id) == IF ns[id].kind = "constant" THEN LikeSym(ns, ns[id].like)
                   ELSE IF ns[id].kind = "select" THEN LikeSym(ns, ns[id].ops[2])
                   ELSE IF ns[id].kind \in PassFirst THEN LikeSym(ns, ns[id].ops[1])
                   ELSE id
TypeOfLike(ns, id) == ns[LikeSym(ns, id)].ty
\* absolute / real / imag pass to their operand only under conditions on complexness that the package decides
\* with its own (expression-level) notion: both readings are admitted, so the reference type of a constant is
\* one of a SET of candidate types
RECURSIVE LikeTys(_, _)
LikeTys(ns, id) == IF ns[id].kind = "constant" THEN LikeTys(ns, ns[id].like)
                   ELSE IF ns[id].kind = "select" THEN LikeTys(ns, ns[id].ops[2])
                   ELSE IF ns[id].kind \in PassFirst THEN LikeTys(ns, ns[id].ops[1])
                   ELSE IF ns[id].kind \in {"absolute", "real", "imag"} THEN {ns[id].ty} \cup LikeTys(ns, ns[id].ops[1])
                   ELSE IF ns[id].kind = "complex" THEN {ns[id].ty} \cup LikeTys(ns, ns[id].ops[1]) \cup LikeTys(ns, ns[id].ops[2])
                   ELSE {ns[id].ty}

(*************************** keys *******************************************)
TwoLevel(ns, id) == IF ns[id].kind \in {"symbol", "constant"} THEN <<ns[id].kind, <<id>>>>
                    ELSE <<ns[id].kind, ns[id].ops>>
KeyEq(ns, a, b) ==
  /\ a.kind = b.kind
  /\ CASE a.kind = "symbol" -> a.name = b.name /\ a.ty = b.ty
       [] a.kind = "constant" -> ValueKeyEq(a.value, b.value) /\ a.like = b.like
       [] OTHER -> /\ Len(a.ops) = Len(b.ops)
                   /\ \A i \in 1..Len(a.ops) : TwoLevel(ns, a.ops[i]) = TwoLevel(ns, b.ops[i])

\* what the code does with a request: normalise the like, look the key up, register if new
Normalize(ns, r) == IF r.kind = "constant" THEN [r EXCEPT !.like = LikeSym(ns, r.like)] ELSE r
Lookup(ns, r) == {i \in 1..Len(ns) : KeyEq(ns, ns[i], r)}
ResultOf(ns, r) == IF Lookup(ns, r) = {} THEN Len(ns) + 1 ELSE CHOOSE i \in Lookup(ns, r) : TRUE

(*************************** structural identity (the property) ************)
ValueSame(a, b) == a.pt = b.pt /\ a.num = b.num /\ a.neg = b.neg /\ (VIsNaN(a) => a.obj = b.obj)
\* two requests certainly denote different expressions
Differ(ns, a, b) ==
  \/ a.kind # b.kind
  \/ a.kind = "symbol" /\ (a.name # b.name \/ a.ty # b.ty)
  \/ a.kind = "constant" /\ ~VIsNaN(a.value) /\ ~VIsNaN(b.value)
       /\ (~ValueSame(a.value, b.value) \/ LikeTys(ns, a.like) \cap LikeTys(ns, b.like) = {})
  \/ a.kind = "constant" /\ VIsNaN(a.value) # VIsNaN(b.value)
  \/ a.kind \notin {"symbol", "constant"} /\ a.ops # b.ops
\* two requests certainly denote the same expression (same like OBJECT after normalisation;
\* NaN constants are left unconstrained)
Same(ns, a, b) ==
  /\ a.kind = b.kind
  /\ CASE a.kind = "symbol" -> a.name = b.name /\ a.ty = b.ty
       [] a.kind = "constant" -> ~VIsNaN(a.value) /\ ValueSame(a.value, b.value)
                                 /\ LikeSym(ns, a.like) = LikeSym(ns, b.like)
       [] OTHER -> a.ops = b.ops

(*************************** actions ****************************************)
Construct(r) ==
  LET rn == Normalize(nodes, r)
      res == ResultOf(nodes, rn)
  IN  /\ nodes' = IF res > Len(nodes) THEN Append(nodes, rn) ELSE nodes
      /\ hist' = Append(hist, [req |-> r, res |-> res])

Exprs == 1..Len(nodes)
Likes == {i \in Exprs : nodes[i].kind \in {"symbol", "constant"}}
\* simulation: any expression that is not boolean-valued may be the like of a constant
BoolValued == {"lt", "le", "gt", "ge", "eq", "ne", "logical_and", "logical_or", "logical_xor", "logical_not", "is_finite"}
\* kinds the package has no static type for (get_type raises): never a like, nor inside one
Untypable == {"bitwise_and", "bitwise_left_shift", "bitwise_or", "bitwise_right_shift", "bitwise_xor", "bitwise_invert",
              "floor_divide", "round", "truncate"}
RECURSIVE Typable(_, _)
Typable(ns, id) == ns[id].kind \notin Untypable /\ \A j \in 1..Len(ns[id].ops) : Typable(ns, ns[id].ops[j])
LikesAny == {i \in Exprs : nodes[i].kind \notin BoolValued /\ Typable(nodes, i)}
RECURSIVE Tuples(_, _)
Tuples(S, n) == IF n = 0 THEN {<<>>} ELSE {<<x>> \o t : x \in S, t \in Tuples(S, n - 1)}

MkSymbol == \E s \in Symbols : Construct(SymbolNode(s)) /\ UNCHANGED nconst
MkConstant == /\ nconst < MaxConst
              /\ \E v \in Values, l \in Likes : Construct(ConstNode(v, l))
              /\ nconst' = nconst + 1
MkOp == \E k \in DOMAIN Kinds : \E ops \in Tuples(Exprs, Kinds[k]) :
           Construct(OpNode(k, ops)) /\ UNCHANGED nconst

Init == nodes = <<>> /\ hist = <<>> /\ nconst = 0
Next == Len(hist) < MaxSteps /\ (MkSymbol \/ MkConstant \/ MkOp)
Spec == Init /\ [][Next]_vars

(*************************** properties *************************************)
\* the node a request returned is not a different expression (no silent aliasing) ...
NoAlias == \A i \in 1..Len(hist) :
             LET h == hist[i] IN ~Differ(nodes, nodes[h.res], Normalize(nodes, h.req))
\* ... and equal expressions are one object
Canonical == \A i, j \in 1..Len(nodes) : i # j => ~Same(nodes, nodes[i], nodes[j])

\* compact projection of a history for export (tuples only: fast to parse)
Compact(h) == <<h.req.kind, h.req.name, h.req.ty,
                <<h.req.value.pt, h.req.value.num, h.req.value.neg, h.req.value.obj>>,
                h.req.like, h.req.ops, h.res>>
Emit == Len(hist) = MaxSteps => PrintT(<<"H", [i \in 1..Len(hist) |-> Compact(hist[i])]>>)
=============================================================================
