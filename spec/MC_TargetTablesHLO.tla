-------------------------- MODULE MC_TargetTablesHLO --------------------------
(***************************************************************************)
(* U1 for C06: the package's tables for the stablehlo and xla_client       *)
(* targets against the spec's own (FAPrinterHLO!ImplH).                    *)
(* TargetTablesHLO.tla is GENERATED at check time from the working tree:   *)
(*   stablehlo.kind_to_target       <<kind, operation name>> ("" for       *)
(*                                  NotImplemented / None entries)         *)
(*   stablehlo.constant_to_target   <<name, rows>>: the entry applied to   *)
(*                                  an operand, `(<entry> $x)`, parsed by  *)
(*                                  the independent StableHLO parser       *)
(*   xla_client.kind_to_target      <<kind, pattern>>: the template parsed *)
(*                                  by the C++-subset parser, operand      *)
(*                                  slots {0}, {1}.. become holes          *)
(* Exhaustive over kinds and named constants: no program using the kind is *)
(* needed (a misspelt operation is found here).                            *)
(*   kinds:     the operation / pattern must be one of ImplH(target, kind) *)
(*              (kinds the spec wild-cards or does not specify are listed, *)
(*              not judged; NotImplemented / callable entries skipped)     *)
(*   constants: the entry must be a constant expression (FAPrinter!RowVal) *)
(*              that is the named constant (FAPrinter!NamedVal)            *)
(* Prints <<"BAD", target, table, name, detail>> per disagreement.         *)
(***************************************************************************)
EXTENDS FAPrinterHLO, TargetTablesHLO

KindVerdictS(row) ==
  LET k == row[1]
      nm == row[2]
  IN  IF nm = "" THEN "skipped"
      ELSE IF k \in WildH("stablehlo") THEN "wild"
      ELSE IF k \notin AllKindsH \/ ImplH("stablehlo", k) = None THEN "unspecified"
      ELSE IF k = "positive" THEN "BAD"             \* any operation name: the dialects have no identity operation
      ELSE IF ("sx:" \o nm) \in {p.o : p \in ImplH("stablehlo", k)} THEN "ok" ELSE "BAD"

KindVerdictX(row) ==
  LET k == row[1]
      p == row[2]
  IN  IF p.o \in {"none", "callable"} THEN "skipped"
      ELSE IF k \in WildH("xla_client") THEN "wild"
      ELSE IF k \notin AllKindsH \/ ImplH("xla_client", k) = None THEN "unspecified"
      ELSE IF p \in ImplH("xla_client", k) THEN "ok" ELSE "BAD"

ConstVerdictS(row) ==
  LET name == row[1]
      rows == row[2]
  IN  IF name \notin KnownNames THEN "unspecified"
      ELSE IF rows = <<>> THEN "BAD"
      ELSE LET rv == RowVal("stablehlo", rows, Len(rows))
           IN  IF rv.ok /\ ConstDenotes("stablehlo", NamedVal(name), rv) THEN "ok" ELSE "BAD"

VARIABLE n
Init == n = 0
Next == /\ n = 0 /\ n' = 1
        /\ \A i \in 1..Len(TablesH.stablehlo.kinds) :
             LET row == TablesH.stablehlo.kinds[i]  v == KindVerdictS(row)
             IN  IF v = "BAD" THEN PrintT(<<"BAD", "stablehlo", "kind", row[1], row[2]>>)
                 ELSE IF v \in {"wild", "unspecified"} THEN PrintT(<<"INFO", "stablehlo", v, row[1]>>) ELSE TRUE
        /\ \A i \in 1..Len(TablesH.stablehlo.constants) :
             LET row == TablesH.stablehlo.constants[i]  v == ConstVerdictS(row)
             IN  IF v = "BAD" THEN PrintT(<<"BAD", "stablehlo", "constant", row[1], IF row[2] = <<>> THEN "unparsable" ELSE row[2][Len(row[2])].o>>)
                 ELSE IF v = "unspecified" THEN PrintT(<<"INFO", "stablehlo", v, row[1]>>) ELSE TRUE
        /\ \A i \in 1..Len(TablesH.xla_client.kinds) :
             LET row == TablesH.xla_client.kinds[i]  v == KindVerdictX(row)
             IN  IF v = "BAD" THEN PrintT(<<"BAD", "xla_client", "kind", row[1], row[2].o, row[2].s>>)
                 ELSE IF v \in {"wild", "unspecified"} THEN PrintT(<<"INFO", "xla_client", v, row[1]>>) ELSE TRUE
        /\ PrintT(<<"ROWS", "stablehlo", Cardinality({i \in 1..Len(TablesH.stablehlo.kinds) : KindVerdictS(TablesH.stablehlo.kinds[i]) \in {"ok", "BAD"}}),
                    Cardinality({i \in 1..Len(TablesH.stablehlo.constants) : ConstVerdictS(TablesH.stablehlo.constants[i]) \in {"ok", "BAD"}})>>)
        /\ PrintT(<<"ROWS", "xla_client", Cardinality({i \in 1..Len(TablesH.xla_client.kinds) : KindVerdictX(TablesH.xla_client.kinds[i]) \in {"ok", "BAD"}}),
                    Len(TablesH.xla_client.constants)>>)
Spec == Init /\ [][Next]_n
=============================================================================
