\* exhaustive: all request histories of length <= 4 over 5 requests, 2 seeds
SPECIFICATION Spec
CONSTANTS
  Requests = {1, 2, 3, 4, 5}
  Seeds = {0, 1}
  MaxLen = 4
  Leak = "seed"
INVARIANT FunctionalDependency
INVARIANT SeedIndependent
CHECK_DEADLOCK FALSE
