\* two distinct operation nodes share a reference name: Sound must be violated
SPECIFICATION Spec
CONSTANTS
  MaxNodes = 3
  Alias = TRUE
INVARIANT Sound
CHECK_DEADLOCK FALSE
