\* U2 of C10, quick: edge gaps, 5 patterns for the second operand, sign pairs (+,+) (+,-) (the driver flips both at random)
SPECIFICATION Spec
CONSTANT Tier = "quick"
INVARIANT Emit
CHECK_DEADLOCK FALSE
