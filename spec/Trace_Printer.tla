---------------------------- MODULE Trace_Printer ----------------------------
(***************************************************************************)
(* C05: one event per emitted program (target x graph x debug level).      *)
(*   e.target, e.nodes, e.root      the real graph, projected              *)
(*   e.prog = [params, stmts, rows, ret]  the text parsed by the           *)
(*                                  independent parser                     *)
(*   e.loads                        the text compiled / was exec'ed        *)
(*   e.wild                         package templates of wild-carded kinds *)
(*   e.samples = <<[in, out, ref, ieee]>>  inputs (name -> value), result  *)
(*       of executing the emitted code, result of the harness's direct     *)
(*       evaluation of the node table with the target's primitives         *)
(* Clauses (names reported in FAIL):                                       *)
(*   loads              the emitted text does not compile / load           *)
(*   single_assignment  a variable (or a parameter) is assigned twice      *)
(*   def_before_use     a variable is used before / without its definition *)
(*   distinct_share     a variable stands where a different node is needed *)
(*                      (the failure names the variable)                   *)
(*   operand_order      operands appear in a different order               *)
(*   operator           no node is realised by this operator here          *)
(*   constant_value / constant_type   a constant expression denotes no     *)
(*                      constant node (no / only numerically equal node)   *)
(*   declared_type      declared variable / parameter / return type is not *)
(*                      the language's name of the node's static type      *)
(*   return_root        the returned term does not denote the root         *)
(*   assert_target      a debug assertion names an undefined variable or   *)
(*                      the wrong type                                     *)
(*   computed_type, ill_formed   (C++) the language's typing rules compute *)
(*                      the node in another type / reject the expression   *)
(*   exec_equal         some input: executed result # direct evaluation by *)
(*                      the harness interpreter (same primitive library)   *)
(*   exec_ieee          some input, graph over IEEE-exact kinds: executed  *)
(*                      result # FAPrinterEval's evaluation (the spec's)   *)
(* Leniencies: NaN = NaN; a sample whose direct evaluation raises (Python) *)
(* or has no reference ("skip") is not judged; `p = T(p)` with T the       *)
(* declared type of parameter p is an argument cast, not an assignment;    *)
(* constants of equal value and type are one sub-expression; kinds in      *)
(* WildKinds are matched against the package's own template; see also the  *)
(* header of FAPrinter.tla.  exec_ieee is judged on the samples flagged    *)
(* `ieee` when FAPrinterEval can evaluate the whole graph (IEEE-exact      *)
(* kinds, uniform precision); "oracle_drift" (harness interpreter # spec   *)
(* evaluation) is a NOTE, reported as model drift, never a violation.      *)
(***************************************************************************)
EXTENDS FAPrinterEval, TraceKit
VARIABLE l

Wild(e) == IF "wild" \in DOMAIN e THEN e.wild ELSE [x \in {} |-> 0]

StaticFails(e) ==
  LET impl == BuildImpl(e.target, e.nodes, Wild(e), 1, <<>>)
      run == RunProgram(e.target, e.nodes, e.root, impl, e.prog)
      mf == run.fails
      tf == IF e.target = "cpp" THEN CppTypingFails(e.nodes, e.prog, run.ds) ELSE {}
      \* parameters / return annotation
      pf == {Fail("declared_type", 0, e.prog.params[j].name) : j \in {jj \in 1..Len(e.prog.params) :
                LET p == e.prog.params[jj]
                IN  \E m \in ParamNodes(e.nodes, p.name) : TypeNames(e.target, e.nodes[m].t) # {} /\ p.ty # "" /\ p.ty \notin TypeNames(e.target, e.nodes[m].t)}}
      rf == IF e.prog.ret # "" /\ TypeNames(e.target, e.nodes[e.root].t) # {} /\ e.prog.ret \notin TypeNames(e.target, e.nodes[e.root].t)
            THEN {Fail("declared_type", 0, "return")} ELSE {}
  IN  mf \cup tf \cup pf \cup rf

LitFails(e) == {i \in 1..Len(e.prog.rows) : ~LitConvOk(e.target, e.prog.rows[i])}

\* sample verdicts: <<clause, sample index>>
SampleFails(e) ==
  LET judge(j) ==
        LET s == e.samples[j]
            r1 == IF s.ref.c \notin {"raise", "skip"} /\ s.out.c # "skip" /\ ~SameResult(s.out, s.ref) THEN {<<"exec_equal", j>>} ELSE {}
            ev == IF s.ieee THEN EvalGraph(e.target, e.nodes, e.root, s.in) ELSE XV
            r2 == IF ev.c # "x" /\ s.out.c # "skip" /\ ~SameResult(s.out, ev) THEN {<<"exec_ieee", j>>} ELSE {}
            r3 == IF ev.c # "x" /\ s.ref.c \notin {"raise", "skip"} /\ ~SameResult(s.ref, ev) THEN {<<"oracle_drift", j>>} ELSE {}
            r4 == IF s.ieee /\ ev.c # "x" THEN {<<"ieee_evaluated", j>>} ELSE {}
        IN  r1 \cup r2 \cup r3 \cup r4
  IN  UNION {judge(j) : j \in 1..Len(e.samples)}

Init == l = 1
Next == /\ l <= Len(Trace)
        /\ LET e == Trace[l]
           IN  IF ~e.loads THEN Report(e, {"loads"})
               ELSE IF ~e.parsed THEN Report(e, {})
               ELSE LET sf == StaticFails(e)
                        lf == LitFails(e)
                        xf == SampleFails(e)
                        clauses == {x[1] : x \in sf} \cup {x[1] : x \in {y \in xf : y[1] \in {"exec_equal", "exec_ieee"}}}
                    IN  /\ Report(e, clauses)
                        /\ IF sf # {} THEN Note(e, <<"static", sf>>) ELSE TRUE
                        /\ IF lf # {} THEN Note(e, <<"lit_conv", lf>>) ELSE TRUE
                        /\ IF xf # {} THEN Note(e, <<"samples", {y \in xf : y[1] # "ieee_evaluated"},
                                                      Cardinality({y \in xf : y[1] = "ieee_evaluated"})>>) ELSE TRUE
        /\ l' = l + 1
Spec == Init /\ [][Next]_l
=============================================================================
