\* history export: 2 symbols, values {0.0,-0.0,1,1.0,True}, kinds negative/subtract/select, <= 2 constants
SPECIFICATION Spec
CONSTANTS
  Values <- MC_ValuesSmall
  Symbols <- MC_Symbols2
  Kinds <- MC_KindsSel
  SignInKey = TRUE
  MaxSteps = 5
  MaxConst = 2
INVARIANT Emit
CHECK_DEADLOCK FALSE
