\* simulation over EVERY fixed-arity operation kind of the package (65 kinds), longer walks
SPECIFICATION SimSpec
CONSTANTS
  Values <- MC_ValuesSim
  Symbols <- MC_SymbolsSim
  Kinds <- MC_KindsAll
  SignInKey = TRUE
  MaxSteps = 24
  MaxConst = 6
INVARIANT NoAlias
INVARIANT Canonical
INVARIANT Emit
CHECK_DEADLOCK FALSE
