\* U1 (thorough): toy format p = 4, emax = 7, 8 bits (256 patterns): all inputs x all outputs
SPECIFICATION Spec
CONSTANTS
  TP = 4
  TEMAX = 7
  TW = 8
INVARIANT AccOK
INVARIANT Count
CHECK_DEADLOCK FALSE
