\* U1 of C11, thorough: domain coverage (-coverage 1) on the tuples of MC_Compound_T4.cfg
SPECIFICATION SpecDom
CONSTANTS
  Fmt = "T4"
  Ops = "multi"
  Stride3 = 31
  StrideF = 127
  Stride4 = 65521
  Off = 0
  XAdd <- TabAdd
  XMul <- TabMul
  XNeg <- TabNeg
  XAbs <- TabAbs
  XLt <- TabLt
  XLe <- TabLe
  XEq <- TabEq
  Val <- TabVal
  COne <- TabCOne
  C32 <- TabC32
  C98 <- TabC98
  C78 <- TabC78
  CQ <- TabCQ
  CP <- TabCP
  CQ13 <- TabCQ13
  CP13 <- TabCP13
  CSplitN <- TabCSplitN
  CSplitC <- TabCSplitC
  CSplitInvN <- TabCSplitInvN
  CXMax <- TabCXMax
  CLargest <- TabCLargest
  CNext <- TabCNext
INVARIANT TypeOK
CHECK_DEADLOCK FALSE
