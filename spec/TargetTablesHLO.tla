--------------------------- MODULE TargetTablesHLO ---------------------------
(***************************************************************************)
(* PLACEHOLDER so that MC_TargetTablesHLO parses on its own.  The check    *)
(* never uses this file: harness/props/c06.py generates the real module    *)
(* from the working tree of the package at check time (next to a copy of   *)
(* MC_TargetTablesHLO.tla in its scratch directory).                       *)
(***************************************************************************)
TablesH == [stablehlo |-> [kinds |-> <<>>, constants |-> <<>>],
            xla_client |-> [kinds |-> <<>>, constants |-> <<>>]]
=============================================================================
