------------------------------ MODULE MC_Printer ------------------------------
(***************************************************************************)
(* U1 for C05/C06: the printing ALGORITHM, transcribed, on all small DAGs. *)
(*                                                                         *)
(*   compute_need_ref (expr.py, Expr.tostring): depth-first from the root; *)
(*     the first visit of a reference name records force_ref, every later  *)
(*     visit sets it to True and does not descend again.                   *)
(*   PrinterBase.tostring (targets/base.py): a node whose name is already  *)
(*     defined prints as its name; otherwise its operands are printed in   *)
(*     order (their assignments are appended on the way), the template is  *)
(*     filled, and if need_ref[name] the result is assigned to the name    *)
(*     (appended AFTER the operands' assignments) and the name returned.   *)
(*                                                                         *)
(* Every DAG with <= MaxNodes nodes (node i is a parameter symbol, a unary *)
(* or a binary operation over nodes < i; the root is the last node) x      *)
(* every force_ref subset x (config Alias) every way of giving two         *)
(* distinct operation nodes the SAME reference name is printed by the      *)
(* transcription and the resulting program is run through the FAPrinter    *)
(* machine: single assignment, definition before use, every variable       *)
(* occurrence denotes the operand required there, the returned term        *)
(* denotes the root.                                                       *)
(* MC_Printer.cfg:        unique names (what _register_reference           *)
(*                        guarantees): the invariant must hold.            *)
(* MC_Printer_alias.cfg:  two nodes share a name: the invariant must be    *)
(*                        VIOLATED (shows the clauses are not vacuous and  *)
(*                        that correctness rests on name uniqueness).      *)
(* Constants: MaxNodes (4 quick / 5 thorough), Alias (FALSE / TRUE).       *)
(***************************************************************************)
EXTENDS FAPrinter

CONSTANTS MaxNodes, Alias
VARIABLES dag, force, alias

Leaf == [k |-> "s", a |-> <<>>]
Shapes(i) == {Leaf} \cup {[k |-> "u", a |-> <<j>>] : j \in 1..(i - 1)}
                    \cup {[k |-> "b", a |-> <<j, l>>] : j \in 1..(i - 1), l \in 1..(i - 1)}
RECURSIVE Dags(_)
Dags(n) == IF n = 1 THEN {<<Leaf>>} ELSE {Append(d, s) : d \in Dags(n - 1), s \in Shapes(n)}
\* every node is reachable from the root (the last node)
RECURSIVE Reach(_, _)
Reach(d, S) == LET T == S \cup UNION {{d[n].a[j] : j \in 1..Len(d[n].a)} : n \in S} IN IF T = S THEN S ELSE Reach(d, T)
Connected(d) == Reach(d, {Len(d)}) = 1..Len(d)

OpNodes(d) == {n \in 1..Len(d) : d[n].k # "s"}
\* reference name of a node (as a number): its own id, unless aliased to the smaller node of the pair
NameOf(al, n) == IF n = al[2] THEN al[1] ELSE n
NameStr(m) == "v" \o HoleName(m)

(*************************** compute_need_ref ******************************)
RECURSIVE Visit(_, _, _, _, _), VisitOps(_, _, _, _, _, _)
Visit(d, F, al, n, nr) ==
  LET nm == NameOf(al, n)
  IN  IF nm \in DOMAIN nr THEN [nr EXCEPT ![nm] = TRUE]
      ELSE VisitOps(d, F, al, n, 1, nr @@ (nm :> (n \in F \/ d[n].k = "s")))
VisitOps(d, F, al, n, j, nr) ==
  IF j > Len(d[n].a) THEN nr ELSE VisitOps(d, F, al, n, j + 1, Visit(d, F, al, d[n].a[j], nr))
NeedRef(d, F, al) == Visit(d, F, al, Len(d), <<>>)

(*************************** PrinterBase.tostring **************************)
\* st = [defined: set of names, stmts, rows]; returns [st, t] with t the row of the printed term
Row(o, a, s) == [o |-> o, a |-> a, s |-> s, v |-> <<>>]
RECURSIVE ToStr(_, _, _, _, _), ToStrOps(_, _, _, _, _, _, _)
ToStr(d, nr, al, n, st) ==
  LET nm == NameOf(al, n)
  IN  IF nm \in st.defined THEN
        [st |-> [st EXCEPT !.rows = Append(@, Row("var", <<>>, NameStr(nm)))], t |-> Len(st.rows) + 1]
      ELSE LET x == ToStrOps(d, nr, al, n, 1, st, <<>>)
               st1 == [x.st EXCEPT !.rows = Append(@, Row("call:" \o d[n].k, x.ts, ""))]
               t1 == Len(st1.rows)
           IN  IF nr[nm] THEN
                 [st |-> [defined |-> st1.defined \cup {nm},
                          stmts |-> Append(st1.stmts, [op |-> "assign", var |-> NameStr(nm), ty |-> "", t |-> t1]),
                          rows |-> Append(st1.rows, Row("var", <<>>, NameStr(nm)))],
                  t |-> t1 + 1]
               ELSE [st |-> st1, t |-> t1]
ToStrOps(d, nr, al, n, j, st, ts) ==
  IF j > Len(d[n].a) THEN [st |-> st, ts |-> ts]
  ELSE LET x == ToStr(d, nr, al, d[n].a[j], st) IN ToStrOps(d, nr, al, n, j + 1, x.st, Append(ts, x.t))

Params(d) == {n \in 1..Len(d) : d[n].k = "s"}
RECURSIVE SetToSeq(_)
SetToSeq(S) == IF S = {} THEN <<>> ELSE LET x == CHOOSE y \in S : \A z \in S : y <= z IN <<x>> \o SetToSeq(S \ {x})

Program(d, F, al) ==
  LET nr == NeedRef(d, F, al)
      st0 == [defined |-> {NameOf(al, n) : n \in Params(d)}, stmts |-> <<>>, rows |-> <<>>]
      x == ToStr(d, nr, al, Len(d), st0)
      ps == SetToSeq(Params(d))
  IN  [params |-> [j \in 1..Len(ps) |-> [name |-> NameStr(ps[j]), ty |-> ""]],
       stmts |-> Append(x.st.stmts, [op |-> "return", var |-> "", ty |-> "", t |-> x.t]),
       rows |-> x.st.rows, ret |-> ""]

(*************************** the graph as the machine sees it **************)
NoV == [c |-> "", neg |-> 0, mag |-> <<>>, fmt |-> "", bits |-> <<>>, name |-> "", im |-> <<>>]
NodeTable(d) == [n \in 1..Len(d) |-> IF d[n].k = "s" THEN [k |-> "symbol", a |-> <<>>, t |-> "float", n |-> NameStr(n), v |-> NoV]
                                     ELSE [k |-> d[n].k, a |-> d[n].a, t |-> "float", n |-> "", v |-> NoV]]
ToyImpl(d) == [n \in 1..Len(d) |-> IF d[n].k = "u" THEN {P("call:u", <<H(1)>>)}
                                   ELSE IF d[n].k = "b" THEN {P("call:b", <<H(1), H(2)>>)} ELSE {}]

Verdict(d, F, al) == RunProgram("python", NodeTable(d), Len(d), ToyImpl(d), Program(d, F, al)).fails

Init == /\ dag \in {d \in UNION {Dags(n) : n \in 1..MaxNodes} : Connected(d)}
        /\ force \in SUBSET OpNodes(dag)
        /\ alias \in IF Alias THEN {p \in OpNodes(dag) \X OpNodes(dag) : p[1] < p[2]} ELSE {<<0, 0>>}
Next == UNCHANGED <<dag, force, alias>>
Spec == Init /\ [][Next]_<<dag, force, alias>>

Sound == Verdict(dag, force, alias) = {}
\* the program really exercises the machine: something is assigned in some behaviours
SomeAssign == Len(Program(dag, force, alias).stmts) >= 1
=============================================================================
