----------------------------- MODULE Trace_EFT ------------------------------
(***************************************************************************)
(* U3 for C10: recorded calls of the real error-free transformations are   *)
(* judged by EFT.tla.  One ndjson line = ONE INPUT with the results of     *)
(* every variant (function copy x option combination x call protocol) the  *)
(* driver called on it, so that the exact result, RN and the               *)
(* transcriptions are evaluated once per input.  Results are grouped by    *)
(* the returned bit patterns: an entry of rs is one distinct returned pair *)
(* with the list ks of the option classes that returned it and how many    *)
(* calls each stands for (the driver keeps which variants those were).     *)
(* Floats are raw bit patterns (limb lists); nothing is interpreted by the *)
(* driver.                                                                 *)
(*                                                                         *)
(*  kind "sum":   fmt, x, y,    rs = << [s, t, err, ks] >>,                *)
(*                ks = << <<fast (0/1), calls, calls with fix_overflow>> >>*)
(*  kind "sum3":  fmt, x, y, z, rs = << [s, t, err, ks] >>,                *)
(*                ks = << <<fast, calls>> >>                               *)
(*  kind "split": fmt, x, cfgs = << [alg, cg, c, scale] ... >> (<= 8),     *)
(*                rs = << [h, l, err, ks] >>, ks = << <<slot, calls>> >>   *)
(*  kind "prod":  fmt, x, y, cfgs (<= 6), rs = << [h, l, err, ks] >>,      *)
(*                ks = << <<slot, calls, fma (0/1)>> >>                    *)
(* slot = index into cfgs; err = exception type name (or result-type       *)
(* problem) or "".                                                         *)
(*                                                                         *)
(* Output: <<"FAIL", id, {"clause@i.j", ...}>> - entry i of rs under       *)
(* option class j of its ks violates the clause; <<"NOTE", id,             *)
(* {"drift@i.j"}>> - it differs from the transcription (at most DriftMax   *)
(* lines per chunk; all are counted); and at the end of the chunk          *)
(* <<"NOTE", -1, st>> with the counters st = <<sum calls, in domain, split *)
(* calls, in domain, prod calls, in domain, in the prod_exact domain, sum3 *)
(* calls, in domain, drifting calls, fix_overflow calls outside the domain *)
(* whose pair is not exact (L3)>>.                                         *)
(***************************************************************************)
EXTENDS EFT, TraceKit
VARIABLES l, st

DriftMax == 20
Tag(cs, i, j) == {c \o "@" \o ToString(i) \o "." \o ToString(j) : c \in cs}
B2N(b) == IF b THEN 1 ELSE 0
\* per-line counters <<calls, in domain, in exact domain, drift, fix note>>
Add5(a, b) == <<a[1] + b[1], a[2] + b[2], a[3] + b[3], a[4] + b[4], a[5] + b[5]>>
Empty == [fails |-> {}, notes |-> {}, c |-> <<0, 0, 0, 0, 0>>]
Join(a, b) == [fails |-> a.fails \cup b.fails, notes |-> a.notes \cup b.notes, c |-> Add5(a.c, b.c)]

RECURSIVE FoldK(_, _, _, _)
\* V(j) = [fails, drift, c] for option class j of entry i
FoldK(V(_), n, i, acc) ==
  IF n = 0 THEN acc
  ELSE LET v == V(n)
       IN  FoldK(V, n - 1, i, [fails |-> acc.fails \cup Tag(v.fails, i, n),
                               notes |-> IF v.drift THEN acc.notes \cup Tag({"drift"}, i, n) ELSE acc.notes,
                               c |-> Add5(acc.c, v.c)])
RECURSIVE FoldE(_, _, _)
FoldE(E(_), n, acc) == IF n = 0 THEN acc ELSE FoldE(E, n - 1, Join(acc, E(n)))

SumVerdict(e) ==
  LET f == FmtOf(e.fmt)
      fin == Fin2(f, e.x, e.y)
      d == DAdd(Val(f, e.x), Val(f, e.y))
      rn == RN(f, d)
      r0 == SumRun(f, e.x, e.y, FALSE)
      r1 == SumRun(f, e.x, e.y, TRUE)
      dom0 == fin /\ SumDomR(f, e.x, e.y, FALSE, r0)
      dom1 == fin /\ SumDomR(f, e.x, e.y, TRUE, r1)
      E(i) == LET r == e.rs[i]
                  bad == r.err # ""
                  isrn == IsRNGiven(f, d, rn, r.s)
                  exact == PairExact(f, d, r.s, r.t)
                  V(j) == LET k == r.ks[j]
                              run == IF k[1] = 1 THEN r1 ELSE r0
                              dom == IF k[1] = 1 THEN dom1 ELSE dom0
                              drift == ~bad /\ fin /\ run.ok /\ ~(Same(f, r.s, run.s) /\ Same(f, r.t, run.t))
                          IN  [fails |-> IF bad THEN {"raised"} ELSE SumFailsF(dom, isrn, exact), drift |-> drift,
                               c |-> <<k[2], k[2] * B2N(~bad /\ dom), 0, k[2] * B2N(drift),
                                       k[3] * B2N(~bad /\ fin /\ ~run.ok /\ IsFinite(f, rn) /\ ~exact)>>]
              IN  FoldK(V, Len(r.ks), i, Empty)
  IN  FoldE(E, Len(e.rs), Empty)

Sum3Verdict(e) ==
  LET f == FmtOf(e.fmt)
      fin == IsFinite(f, e.x) /\ Fin2(f, e.y, e.z)
      d == DAdd(DAdd(Val(f, e.x), Val(f, e.y)), Val(f, e.z))
      rn == RN(f, d)
      r0 == Sum3Run(f, e.x, e.y, e.z, FALSE)
      r1 == Sum3Run(f, e.x, e.y, e.z, TRUE)
      dom0 == fin /\ Sum3DomR(f, e.x, e.y, e.z, FALSE, r0)
      dom1 == fin /\ Sum3DomR(f, e.x, e.y, e.z, TRUE, r1)
      E(i) == LET r == e.rs[i]
                  bad == r.err # ""
                  isrn == IsRNGiven(f, d, rn, r.s)
                  exact == PairExact(f, d, r.s, r.t)
                  V(j) == LET k == r.ks[j]
                              run == IF k[1] = 1 THEN r1 ELSE r0
                              dom == IF k[1] = 1 THEN dom1 ELSE dom0
                              drift == ~bad /\ fin /\ run.ok /\ ~(Same(f, r.s, run.s) /\ Same(f, r.t, run.t))
                          IN  [fails |-> IF bad THEN {"raised"} ELSE Sum3FailsF(dom, isrn, exact), drift |-> drift,
                               c |-> <<k[2], k[2] * B2N(~bad /\ dom), 0, k[2] * B2N(drift), 0>>]
              IN  FoldK(V, Len(r.ks), i, Empty)
  IN  FoldE(E, Len(e.rs), Empty)

SplitVerdict(e) ==
  LET f == FmtOf(e.fmt)
      K == FConsts(f)
      n == Len(e.cfgs)
      fin == IsFinite(f, e.x)
      Slot(k) == e.cfgs[IF k <= n THEN k ELSE 1]
      \* the transcription of each configuration, evaluated at most once per line
      b1 == SplitRunBase(f, K, e.x, Slot(1))
      b2 == SplitRunBase(f, K, e.x, Slot(2))
      b3 == SplitRunBase(f, K, e.x, Slot(3))
      b4 == SplitRunBase(f, K, e.x, Slot(4))
      b5 == SplitRunBase(f, K, e.x, Slot(5))
      b6 == SplitRunBase(f, K, e.x, Slot(6))
      b7 == SplitRunBase(f, K, e.x, Slot(7))
      b8 == SplitRunBase(f, K, e.x, Slot(8))
      Base(k) == CASE k = 1 -> b1 [] k = 2 -> b2 [] k = 3 -> b3 [] k = 4 -> b4 [] k = 5 -> b5 [] k = 6 -> b6
                   [] k = 7 -> b7 [] k = 8 -> b8
      \* L6: the other reading of an ambiguous default constant - the run of another slot when there is one
      AltOk(k) == LET alt == AltCfg(K, e.cfgs[k])
                  IN  IF \E j \in 1..n : e.cfgs[j] = alt THEN Base(CHOOSE j \in 1..n : e.cfgs[j] = alt).ok
                      ELSE SplitRunBase(f, K, e.x, alt).ok
      \* = SplitRun(f, K, e.x, e.cfgs[k])
      Run(k) == [h |-> Base(k).h, l |-> Base(k).l, ok |-> Base(k).ok /\ (AmbiguousDefault(e.cfgs[k]) => AltOk(k))]
      vx == Val(f, e.x)
      E(i) == LET r == e.rs[i]
                  bad == r.err # ""
                  exact == PairExact(f, vx, r.h, r.l)
                  sh == IF Fin2(f, r.h, r.l) THEN Max(SigBits(f, r.h), SigBits(f, r.l)) ELSE 0
                  V(j) == LET k == r.ks[j]
                              cfg == e.cfgs[k[1]]
                              run == Run(k[1])
                              dom == fin /\ SplitDomR(f, K, e.x, cfg, run)
                              fit == Fin2(f, r.h, r.l) /\ sh <= SplitHalfBits(f, K, cfg)
                              drift == ~bad /\ fin /\ run.ok /\ ~(Same(f, r.h, run.h) /\ Same(f, r.l, run.l))
                          IN  [fails |-> IF bad THEN {"raised"} ELSE SplitFailsF(dom, exact, fit), drift |-> drift,
                               c |-> <<k[2], k[2] * B2N(~bad /\ dom), 0, k[2] * B2N(drift), 0>>]
              IN  FoldK(V, Len(r.ks), i, Empty)
  IN  FoldE(E, Len(e.rs), Empty)

ProdVerdict(e) ==
  LET f == FmtOf(e.fmt)
      K == FConsts(f)
      n == Len(e.cfgs)
      fin == Fin2(f, e.x, e.y)
      d == DMul(Val(f, e.x), Val(f, e.y))
      rn == RN(f, d)
      errrep == ErrRepresentable(f, d, rn)
      Slot(k) == e.cfgs[IF k <= n THEN k ELSE 1]
      b1 == ProdRunBase(f, K, e.x, e.y, Slot(1))
      b2 == ProdRunBase(f, K, e.x, e.y, Slot(2))
      b3 == ProdRunBase(f, K, e.x, e.y, Slot(3))
      b4 == ProdRunBase(f, K, e.x, e.y, Slot(4))
      b5 == ProdRunBase(f, K, e.x, e.y, Slot(5))
      b6 == ProdRunBase(f, K, e.x, e.y, Slot(6))
      Base(k) == CASE k = 1 -> b1 [] k = 2 -> b2 [] k = 3 -> b3 [] k = 4 -> b4 [] k = 5 -> b5 [] k = 6 -> b6
      AltOk(k) == LET alt == AltCfg(K, e.cfgs[k])
                  IN  IF \E j \in 1..n : e.cfgs[j] = alt THEN Base(CHOOSE j \in 1..n : e.cfgs[j] = alt).ok
                      ELSE ProdRunBase(f, K, e.x, e.y, alt).ok
      \* = ProdRun(f, K, e.x, e.y, e.cfgs[k]).ok
      Ok(k) == Base(k).ok /\ (AmbiguousDefault(e.cfgs[k]) => AltOk(k))
      E(i) == LET r == e.rs[i]
                  bad == r.err # ""
                  isrn == IsRNGiven(f, d, rn, r.h)
                  exact == PairExact(f, d, r.h, r.l)
                  V(j) == LET k == r.ks[j]
                              run == Base(k[1])
                              fma == k[3] = 1
                              dom == fin /\ Ok(k[1]) /\ ~fma                              \* L4
                              drift == ~bad /\ dom /\ ~(Same(f, r.h, run.h) /\ Same(f, r.l, run.l))
                          IN  [fails |-> IF bad THEN {"raised"} ELSE ProdFailsF(dom, isrn, errrep, exact), drift |-> drift,
                               c |-> <<k[2], k[2] * B2N(~bad /\ dom), k[2] * B2N(~bad /\ dom /\ errrep), k[2] * B2N(drift), 0>>]
              IN  FoldK(V, Len(r.ks), i, Empty)
  IN  FoldE(E, Len(e.rs), Empty)

Verdict(e) == CASE e.kind = "sum" -> SumVerdict(e) [] e.kind = "sum3" -> Sum3Verdict(e)
                [] e.kind = "split" -> SplitVerdict(e) [] e.kind = "prod" -> ProdVerdict(e)

\* position of the per-line counters in st
Zero11 == <<0, 0, 0, 0, 0, 0, 0, 0, 0, 0, 0>>
AddLine(s, kind, c) ==
  LET o == CASE kind = "sum" -> 1 [] kind = "split" -> 3 [] kind = "prod" -> 5 [] kind = "sum3" -> 8
  IN  [i \in 1..11 |-> s[i] + (IF i = o THEN c[1] ELSE IF i = o + 1 THEN c[2]
                               ELSE IF i = 7 /\ kind = "prod" THEN c[3]
                               ELSE IF i = 10 THEN c[4] ELSE IF i = 11 THEN c[5] ELSE 0)]

Init == l = 1 /\ st = Zero11
Next == /\ l <= Len(Trace)
        /\ LET e == Trace[l]
               v == Verdict(e)
               s2 == AddLine(st, e.kind, v.c)
           IN  /\ Report(e, v.fails)
               /\ (IF v.notes = {} \/ st[10] >= DriftMax THEN TRUE ELSE PrintT(<<"NOTE", e.id, v.notes>>))
               /\ (IF l = Len(Trace) THEN PrintT(<<"NOTE", -1, s2>>) ELSE TRUE)
               /\ st' = s2
        /\ l' = l + 1
Spec == Init /\ [][Next]_<<l, st>>
=============================================================================
