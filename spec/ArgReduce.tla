------------------------------ MODULE ArgReduce ------------------------------
(***************************************************************************)
(* C17 - argument reduction reconstructs its input.                        *)
(*                                                                         *)
(* The property is a statement about the REAL constants ln 2 and pi.  They *)
(* enter as dyadic enclosures (ArgReduceConsts, re-derived from series in  *)
(* MC_ArgReduce):   ln 2 in [Ln2L, Ln2U],  Ln2U - Ln2L = 2^-300            *)
(*                  pi   in [PiL,  PiU],   PiU  - PiL  = 2^-1300           *)
(* Every clause has the form  |E(c)| <= b  with E affine in the constant   *)
(* c, so E takes its extreme values at the ends of the enclosure.  A       *)
(* clause is                                                               *)
(*   "sat"   when it holds at both ends (hence for the real constant),     *)
(*   "viol"  when it fails at both ends on the same side (hence for the    *)
(*           real constant),                                               *)
(*   "undec" otherwise (the enclosure is too wide to decide; the harness   *)
(*           treats this as a machinery failure - it needs an error within *)
(*           2^-276 of the bound, it never happens).                       *)
(* Only "viol" is a failure: no verdict depends on unknown digits.         *)
(*                                                                         *)
(* Exponential reduction  (k, r, c) of x,  domain |x| < log(largest):      *)
(*   k_integral  k is an integer                                           *)
(*   range       |r + c| <= 0.55 * ln 2          (r + c exact, 0.55=11/20) *)
(*   recon       |k * ln 2 + (r + c) - x| <= ulp(x)                        *)
(* Trigonometric reduction (k, r, t) of x, domain |x| <= largest / 2^j     *)
(* (j = 18 / 5 / 2 for float64 / float32 / float16, the domain the         *)
(* package's tests use), with an integer witness N supplied by the driver: *)
(*   k_range     k in {0, 1, 2, 3}                                         *)
(*   r_range     |r| <= 1.1 * pi / 4                           (1.1=11/10) *)
(*   recon       |x - k*pi/2 - (r + t) - 2*pi*N| <= tol * ulp(r),          *)
(*               tol = 1 (10 for float16).  N is not trusted: the          *)
(*               inequality is evaluated with it; a wrong N can only make  *)
(*               the event fail.                                           *)
(* LENIENCY (recon, trigonometric).  "to within tol ULP of the remainder"  *)
(* can be read on the real line (above: exact r + t, ulp of the high word  *)
(* r) or on the float lattice, as the package's own test measures it:      *)
(* latticeDistance(fl(r + t), RN(x - k*pi/2 - 2*pi*N)) <= tol.  An event   *)
(* fails recon only if it fails under BOTH readings; an event that fails   *)
(* only the real-line reading is noted "strict_only".                      *)
(*                                                                         *)
(* Severity classes of a failing trigonometric recon (weaker inequalities  *)
(* evaluated the same way; they key the known findings as BOUNDED classes: *)
(* an error outside the class measured on the unchanged tree is a new      *)
(* violation).  p = precision, E = the reconstruction error:               *)
(*   sev_dw    |E| <= 2^(DwSlack - 2p)  and  |E| <= 2^UlpSlack * tol*ulp(r)*)
(*             the double word (r, t) carries about 2p bits below 1, so a  *)
(*             remainder below 2^(DwSlack - p) loses its last bits         *)
(*             (measured on the unchanged tree, every binade's continued-  *)
(*             fraction worst cases: 2^4.31 * 2^-2p and 3.62 ulp(r);       *)
(*             DwSlack = 6, UlpSlack = 4 leave a factor 3 - 4)             *)
(*   sev_tab   |E| <= 2^(DwSlack - 2p) + |x| * 2^(QMin + TabSlack)         *)
(*             the 2/pi table of the implementation stops at the smallest  *)
(*             subnormal 2^QMin of the format (measured: the error is      *)
(*             |x| * 2^(QMin - 1.0 +- 0.1) on every such float32/float64   *)
(*             event, at most |x| * 2^(QMin - 0.56) in float16 - the table *)
(*             error is one fixed number per format; TabSlack = 0)         *)
(*   sev_unbounded  neither                                                *)
(***************************************************************************)
EXTENDS IEEE, ArgReduceConsts

Ln2L == <<ZFromNat(Ln2Num), -Ln2Bits>>
Ln2U == <<ZFromNat(NAdd(Ln2Num, NOne)), -Ln2Bits>>
PiL == <<ZFromNat(PiNum), -PiBits>>
PiU == <<ZFromNat(NAdd(PiNum, NOne)), -PiBits>>

DwSlack == 6
UlpSlack == 4
TabSlack == 0

DInt(n) == DFromInt(n)

\* |E| <= b for E anywhere between eL and eU (b >= 0)
Within(eL, eU, b) ==
  IF DLe(DAbs(eL), b) /\ DLe(DAbs(eU), b) THEN "sat"
  ELSE IF (DLt(b, eL) /\ DLt(b, eU)) \/ (DLt(eL, DNeg(b)) /\ DLt(eU, DNeg(b))) THEN "viol"
  ELSE "undec"

\* a <= m * c for the real c in [cL, cU]  (a >= 0, m > 0 a dyadic)
AtMost(a, m, cL, cU) ==
  IF DLe(a, DMul(m, cL)) THEN "sat" ELSE IF DLt(DMul(m, cU), a) THEN "viol" ELSE "undec"

IsIntegral(d) == DIsZero(d) \/ DCanon(d)[2] >= 0

(*************************** domains ***************************************)
\* log(largest) = (emax + 1) ln 2 + ln(1 - 2^-p),  -u - u^2 <= ln(1 - u) < -u for 0 < u <= 1/2
LogLargestLower(f) ==
  DSub(DMul(DInt(f.emax + 1), Ln2L), DAdd(<<ZFromInt(1), -f.p>>, <<ZFromInt(1), -2 * f.p>>))
InDomExp(f, x) == IsFinite(f, x) /\ DLt(DAbs(Val(f, x)), LogLargestLower(f))

TrigJ(f) == CASE f.p = 53 -> 18 [] f.p = 24 -> 5 [] f.p = 11 -> 2 [] OTHER -> 2
TrigTol(f) == IF f.p = 11 THEN 10 ELSE 1
InDomTrig(f, x) == IsFinite(f, x) /\ DLe(DAbs(Val(f, x)), DShl(Val(f, LargestMag(f)), -TrigJ(f)))

(*************************** exponential ***********************************)
\* returns [fails, notes]
ExpVerdict(f, x, k, r, c) ==
  IF ~InDomExp(f, x) THEN [fails |-> {}, notes |-> {"out_of_domain"}]
  ELSE IF ~(IsFinite(f, k) /\ IsFinite(f, r) /\ IsFinite(f, c)) THEN [fails |-> {"nonfinite"}, notes |-> {}]
  ELSE
  LET vx == Val(f, x)
      vk == Val(f, k)
      s == DAdd(Val(f, r), Val(f, c))
      sx == DSub(s, vx)
      eL == DAdd(DMul(vk, Ln2L), sx)
      eU == DAdd(DMul(vk, Ln2U), sx)
      rec == Within(eL, eU, UlpD(f, x))
      rng == AtMost(DMul(DInt(20), DAbs(s)), DInt(11), Ln2L, Ln2U)
  IN  [fails |-> (IF ~IsIntegral(vk) THEN {"k_integral"} ELSE {})
                 \cup (IF rng = "viol" THEN {"range"} ELSE {})
                 \cup (IF rec = "viol" THEN {"recon"} ELSE {}),
       notes |-> IF rng = "undec" \/ rec = "undec" THEN {"undecided"} ELSE {}]

(*************************** trigonometric *********************************)
KInt(vk) == CASE DEq(vk, DInt(0)) -> 0 [] DEq(vk, DInt(1)) -> 1 [] DEq(vk, DInt(2)) -> 2
              [] DEq(vk, DInt(3)) -> 3 [] OTHER -> -1

TrigVerdict(f, x, k, r, t, n) ==
  IF ~InDomTrig(f, x) THEN [fails |-> {}, notes |-> {"out_of_domain"}]
  ELSE IF ~(IsFinite(f, k) /\ IsFinite(f, r) /\ IsFinite(f, t)) THEN [fails |-> {"nonfinite"}, notes |-> {}]
  ELSE
  LET vx == Val(f, x)
      ki == KInt(Val(f, k))
      vr == Val(f, r)
      rng == AtMost(DMul(DInt(40), DAbs(vr)), DInt(11), PiL, PiU)
      rfail == IF rng = "viol" THEN {"r_range"} ELSE {}
  IN  IF ki < 0 THEN [fails |-> {"k_range"} \cup rfail, notes |-> {}]
      ELSE
      LET m == <<ZAdd(ZFromInt(ki), ZShl(n, 2)), 0>>          \* k + 4 N
          hL == DShl(DMul(PiL, m), -1)                        \* (k + 4N) pi / 2 at both ends
          hU == DShl(DMul(PiU, m), -1)
          s == DAdd(vr, Val(f, t))
          a == DSub(vx, s)
          eL == DSub(a, hL)
          eU == DSub(a, hU)
          tol == TrigTol(f)
          bnd == DMul(DInt(tol), UlpD(f, r))
          rec == Within(eL, eU, bnd)
          \* lattice reading: fl(r + t) against RN of the true remainder
          fs == RN(f, s)
          t1 == RN(f, DSub(vx, hL))
          t2 == RN(f, DSub(vx, hU))
          lat == \/ NCmp(Dist(f, fs, t1), NFromInt(tol)) <= 0
                 \/ NCmp(Dist(f, fs, t2), NFromInt(tol)) <= 0
          flr == <<ZFromInt(1), DwSlack - 2 * f.p>>
          tab == DAdd(flr, DShl(DAbs(vx), QMin(f) + TabSlack))
          sev == IF Within(eL, eU, flr) = "sat" /\ Within(eL, eU, DShl(bnd, UlpSlack)) = "sat" THEN "sev_dw"
                 ELSE IF Within(eL, eU, tab) = "sat" THEN "sev_tab" ELSE "sev_unbounded"
      IN  [fails |-> rfail \cup (IF rec = "viol" /\ ~lat THEN {"recon", sev} ELSE {}),
           notes |-> (IF rng = "undec" \/ rec = "undec" THEN {"undecided"} ELSE {})
                     \cup (IF rec = "viol" /\ lat THEN {"strict_only"} ELSE {})]

(*************************** small division (for the series in MC_ArgReduce) *)
\* floor(a / d) for a natural a and a native 0 < d < B, limb by limb from the top
RECURSIVE NDivSmallFrom(_, _, _, _)
NDivSmallFrom(a, d, i, rem) ==
  IF i = 0 THEN <<>>
  ELSE LET cur == rem * B + a[i]
       IN  NDivSmallFrom(a, d, i - 1, cur % d) \o <<cur \div d>>
NDivSmall(a, d) == NNorm(NDivSmallFrom(a, d, Len(a), 0))
=============================================================================
