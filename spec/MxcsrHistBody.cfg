\* history export with body writes: 2 objects, 4 requests on different fields, nesting <= 2; MaxLevel set per run
SPECIFICATION HSpecBody
CONSTANTS
  Objs <- MC_Objs2
  ReqSet <- MC_ReqTiny
  InitRegs <- MC_InitRegs
  DesiredAt = "enter"
  MaxDepth = 2
  MaxLevel = 5
CONSTRAINT HBounded
INVARIANT Emit
CHECK_DEADLOCK FALSE
