\* history export: 3 objects, 4 requests on different fields, nesting <= 3; MaxLevel set per run
SPECIFICATION HSpec
CONSTANTS
  Objs <- MC_Objs3
  ReqSet <- MC_ReqTiny
  InitRegs <- MC_InitRegs
  DesiredAt = "enter"
  MaxDepth = 2
  MaxLevel = 5
CONSTRAINT HBounded
INVARIANT Emit
CHECK_DEADLOCK FALSE
