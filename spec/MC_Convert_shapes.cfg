\* U2: print the input shapes (class, sign, binade position, significand shape) once
SPECIFICATION ShapeSpec
CONSTANTS
  Fmt <- T4
CHECK_DEADLOCK FALSE
