---------------------------- MODULE Trace_Mxcsr -----------------------------
(***************************************************************************)
(* Validation of recorded executions of the real fpu.MXCSRRegister against *)
(* Mxcsr.tla.  One ndjson line per step of a behaviour; "Begin" starts a   *)
(* new behaviour.  pre/post are the register words read by the harness's   *)
(* own stmxcsr stub immediately before and after the step; probes are      *)
(* results of arithmetic executed right after the step.  The request of a  *)
(* context is what the driver asked for, the ghost stack is the spec's own *)
(* record of the register at each entry: nothing is read back from the     *)
(* implementation's objects.                                               *)
(***************************************************************************)
EXTENDS Mxcsr, IEEE, TraceKit
VARIABLES l,
          dirty      \* 0, or the nesting depth at which the body wrote the register itself (BodyWrite)

IF32 == F32
Three == DFromInt(3)
One == DFromInt(1)
\* r is 1/3 (neg = 0) or -1/3 (neg = 1) rounded in direction rc (0 nearest, 1 down, 2 up, 3 zero)
ThirdOK(rbits, neg, rc) ==
  LET mag == Mag(IF32, rbits)
      lo == DMul(Val(IF32, mag), Three)                      \* 3*|r|
      hi == DMul(Val(IF32, NAdd(mag, NOne)), Three)          \* 3*next(|r|)
      lom == DMul(Val(IF32, NSub(mag, NOne)), Three)
      towardzero == DLe(lo, One) /\ DLt(One, hi)             \* |r| <= 1/3 < next
      away == DLt(lom, One) /\ DLe(One, lo)                  \* prev < 1/3 <= |r|
      nearest == \* |1 - 3|r|| minimal: 1/3 is not a tie, so strict comparison decides
                 /\ DLt(DAbs(DSub(One, lo)), DAbs(DSub(One, hi)))
                 /\ DLt(DAbs(DSub(One, lo)), DAbs(DSub(One, lom)))
  IN  /\ SignBit(IF32, rbits) = neg
      /\ CASE rc = 0 -> nearest
           [] rc = 3 -> towardzero
           [] rc = 1 -> IF neg = 0 THEN towardzero ELSE away
           [] rc = 2 -> IF neg = 0 THEN away ELSE towardzero

EffectsOK(e) ==
  LET r == RegOfWord(e.post)
  IN  /\ e.probe.ftz = r.fz
      /\ e.probe.daz = r.daz
      /\ ThirdOK(e.probe.third_pos, 0, r.rc)
      /\ ThirdOK(e.probe.third_neg, 1, r.rc)

ReqOf(e) == [fz |-> e.req.fz, daz |-> e.req.daz, rn |-> e.req.rn]

RECURSIVE ComposeT(_, _, _, _)
ComposeT(r, st, ob, i) == IF i > Len(st) THEN r ELSE ComposeT(ApplyReq(ob[st[i].c].req, r), st, ob, i + 1)

\* a body write at depth d stays in effect until the context at depth d is left
NewDirty(e, newstack) ==
  CASE e.op = "Begin" -> 0
    [] e.op = "BodyWrite" -> IF dirty = 0 THEN Len(stack) ELSE IF Len(stack) < dirty THEN Len(stack) ELSE dirty
    [] e.op = "Exit" -> IF dirty > Len(newstack) THEN 0 ELSE dirty
    [] OTHER -> dirty

Fails(e) ==
  LET pre == RegOfWord(e.pre)
      post == RegOfWord(e.post)
      top == stack[Len(stack)]
      newstack == CASE e.op = "Enter" /\ e.raised = "" -> Append(stack, [c |-> e.c, entry |-> pre])
                    [] e.op = "Exit" -> SubSeq(stack, 1, Len(stack) - 1)
                    [] OTHER -> stack
      newobjs == IF e.op = "Create" THEN [objs EXCEPT ![e.c] = [@ EXCEPT !.req = ReqOf(e), !.st = "created"]] ELSE objs
      start == IF e.op = "Begin" THEN pre ELSE init
      newdirty == NewDirty(e, newstack)
  IN
     (IF e.op = "Begin" /\ Ctl(post) # Ctl(pre) THEN {"begin_pure"} ELSE {})
  \cup (IF e.op = "Create" /\ (Ctl(post) # Ctl(pre) \/ ~FlagsKept(pre, post) \/ e.raised # "")
          THEN {"create_pure"} ELSE {})
  \cup (IF e.op = "Enter" /\ e.raised # "" THEN {"enter_raised"} ELSE {})
  \cup (IF e.op = "Enter" /\ e.raised = "" /\ Ctl(post) # Ctl(ApplyReq(objs[e.c].req, pre))
          THEN {"only_requested_bits"} ELSE {})
  \cup (IF e.op = "Enter" /\ ~FlagsKept(pre, post) THEN {"enter_keeps_flags"} ELSE {})
  \cup (IF e.op = "EnterTwice" /\ (Ctl(post) # Ctl(pre) \/ ~FlagsKept(pre, post))
          THEN {"failed_enter_pure"} ELSE {})
  \cup (IF e.op = "Exit" /\ e.raised # "" THEN {"exit_raised"} ELSE {})
  \cup (IF e.op = "Exit" /\ Ctl(post) # Ctl(top.entry) THEN {"exit_restores"} ELSE {})
  \cup (IF e.op = "Exit" /\ ~FlagsKept(top.entry, post) THEN {"exit_keeps_entry_flags"} ELSE {})
  \* "on exit the register holds EXACTLY the value it had on entry": also the status flags raised inside the body
  \* are gone (the driver reads the register right after __exit__ returns, with no floating-point operation between)
  \cup (IF e.op = "Exit" /\ e.raised = "" /\ post.flags # top.entry.flags THEN {"exit_restores_flags_exactly"} ELSE {})
  \cup (IF e.op = "Exit" /\ e.exc /\ ~e.propagated THEN {"exception_swallowed"} ELSE {})
  \cup (IF newstack = <<>> /\ Ctl(post) # Ctl(start) THEN {"balanced_identity"} ELSE {})
  \* (while a body write is in effect the control word is whatever the body made it)
  \cup (IF newdirty = 0 /\ Ctl(post) # Ctl(ComposeT(start, newstack, newobjs, 1)) THEN {"nest_composition"} ELSE {})
  \cup (IF e.op = "BodyWrite" /\ stack = <<>> THEN {"mach_body_write_outside"} ELSE {})
  \cup (IF ~EffectsOK(e) THEN {"effects"} ELSE {})

TInit == /\ l = 1 /\ dirty = 0
         /\ mxcsr = NoReg /\ init = NoReg /\ stack = <<>> /\ last = <<>>
         /\ objs = [c \in Objs |-> Fresh]

TNext ==
  /\ l <= Len(Trace)
  /\ LET e == Trace[l]
         pre == RegOfWord(e.pre)
         post == RegOfWord(e.post)
     IN  /\ Report(e, Fails(e))
         /\ mxcsr' = post
         /\ init' = IF e.op = "Begin" THEN pre ELSE init
         /\ objs' = CASE e.op = "Begin" -> [c \in Objs |-> Fresh]
                      [] e.op = "Create" -> [objs EXCEPT ![e.c] = [@ EXCEPT !.req = ReqOf(e), !.st = "created"]]
                      [] OTHER -> objs
         /\ stack' = CASE e.op = "Begin" -> <<>>
                       [] e.op = "Enter" /\ e.raised = "" -> Append(stack, [c |-> e.c, entry |-> pre])
                       [] e.op = "Exit" -> SubSeq(stack, 1, Len(stack) - 1)
                       [] OTHER -> stack
         /\ last' = <<e.op>>
         /\ dirty' = NewDirty(e, CASE e.op = "Begin" -> <<>>
                                    [] e.op = "Enter" /\ e.raised = "" -> Append(stack, [c |-> e.c, entry |-> pre])
                                    [] e.op = "Exit" -> SubSeq(stack, 1, Len(stack) - 1)
                                    [] OTHER -> stack)
  /\ l' = l + 1
TSpec == TInit /\ [][TNext]_<<vars, l, dirty>>
=============================================================================
