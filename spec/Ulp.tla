-------------------------------- MODULE Ulp ---------------------------------
(***************************************************************************)
(* C14 - the ULP metric is the integer distance on the float lattice.      *)
(*                                                                         *)
(* Definitions (on top of IEEE.tla, format-parametric):                    *)
(*                                                                         *)
(*  UlpDist(f, x, y) = |Ord(x) - Ord(y)|, Ord(+-0) = 0   (plain mode)      *)
(*  complex distance  = larger of the two component distances              *)
(*                                                                         *)
(*  Flush mode.  The statement only says "all subnormals collapse onto     *)
(*  zero/smallest normal consistently"; it does not say which subnormal    *)
(*  goes where.  The relation is therefore existential: there is a         *)
(*  collapse map c, sending every subnormal either to zero or to the       *)
(*  smallest normal OF ITS OWN SIGN, monotone in magnitude, such that      *)
(*  every reported distance is the distance of the images c(x), c(y) on    *)
(*  the flushed lattice (the float lattice with the subnormals removed, so *)
(*  that +-min normal are the neighbours of zero: FOrd).                   *)
(*  The witness for c is read off the implementation itself: w(x) is the   *)
(*  recorded d(x, +0) in flush mode (it must be 0 or 1 for a subnormal x). *)
(*  Every event that involves a subnormal operand carries that witness and *)
(*  the event's distance must be the lattice distance of the image named   *)
(*  by the witness - so the same value has the same image in every event   *)
(*  ("consistently"), whatever the other operand, order of operands or     *)
(*  component position is.  Monotonicity of c is checked on recorded       *)
(*  ascending chains of subnormals (op "collapse"; all subnormals for      *)
(*  float16).  Nothing is demanded about where the threshold lies, nor     *)
(*  that the thresholds of the two signs agree.                            *)
(*                                                                         *)
(*  ulp(x): u = ulp(x) satisfies, for every finite x,                      *)
(*     x >= 0 (either zero included): x (+) u = NextUp(x)                  *)
(*     x <  0                       : x (-) u = NextDown(x)                *)
(*     ulp(-x) = ulp(x)                                                    *)
(*  with (+), (-) the correctly rounded IEEE operations of the format.     *)
(*  Nothing else is demanded from u (its exact value is not pinned).       *)
(*                                                                         *)
(* The consequences listed in the property (zero iff equal modulo signed   *)
(* zero, symmetry, number of representable steps, k-th neighbour at        *)
(* distance k, additivity on monotone chains, across zero and binade       *)
(* boundaries) are THEOREMS of these definitions: MC_Ulp checks them by    *)
(* TLC on all pairs/triples of toy formats, using only the value order     *)
(* (Val, DLt) as the independent notion of "between" and "neighbour".      *)
(* That is why the trace clause is the single equation                     *)
(*     diff_ulp(x, y) = UlpDist(x, y).                                     *)
(***************************************************************************)
EXTENDS IEEE, FiniteSets

UlpDist(f, x, y) == Dist(f, x, y)

NMax(a, b) == IF NCmp(a, b) >= 0 THEN a ELSE b

(***************************** flush mode ***********************************)
\* number of positive subnormals = ordinal shift of the normals
SubCount(f) == NSub(MinNormalMag(f), NOne)
\* signed ordinal on the flushed lattice; x must be a zero or a normal number
FOrd(f, x) == IF IsZero(f, x) THEN ZZero ELSE ZMk(SignBit(f, x), NSub(Mag(f, x), SubCount(f)))
FDist(f, x, y) == ZSub(FOrd(f, x), FOrd(f, y))[2]
MinNormalOfSign(f, neg) == WithSign(f, neg, MinNormalMag(f))
\* a witness is the natural 0 (<<>>) or 1 (<<1>>)
IsWitness(w) == w = <<>> \/ w = <<1>>
Image(f, x, w) == IF ~IsSubnormal(f, x) THEN x
                  ELSE IF w = <<>> THEN PosZero(f) ELSE MinNormalOfSign(f, SignBit(f, x))
FlushDist(f, x, wx, y, wy) == FDist(f, Image(f, x, wx), Image(f, y, wy))

\* a collapse map given by its two thresholds: subnormals of sign s whose magnitude
\* ordinal is >= t[s] go to the min normal, the others to zero  (monotone by construction;
\* every monotone collapse map has this form, t[s] \in 1..MinNormalMag)
ThresholdWitness(f, tpos, tneg, x) ==
  LET t == IF SignBit(f, x) = 1 THEN tneg ELSE tpos
  IN  IF NCmp(Mag(f, x), t) >= 0 THEN <<1>> ELSE <<>>

\* transcription of what utils.diff_ulp does in flush mode (round half up on the
\* magnitude ordinal: 2*ix <= i ? 0 : 1 with i the largest subnormal)
CodeWitness(f, x) ==
  IF NCmp(NShl(Mag(f, x), 1), SubCount(f)) <= 0 THEN <<>> ELSE <<1>>

(******************************* ulp ****************************************)
\* the value 2^Quantum(x) as a pattern (always representable)
UlpBits(f, x) == RN(f, UlpD(f, x))
NonNeg(f, x) == SignBit(f, x) = 0 \/ IsZero(f, x)
\* the identities of the docstring for finite x and finite u
UlpUpOK(f, x, u) == FAdd(f, x, u) = NextUp(f, x)
UlpDownOK(f, x, u) == FSub(f, x, u) = NextDown(f, x)
UlpIdentityOK(f, x, u) == IF NonNeg(f, x) THEN UlpUpOK(f, x, u) ELSE UlpDownOK(f, x, u)

\* transcription of utils.ulp: ldexp(1, frexp(|x|)[1] + negep) = RN(2^(lead+1-p)),
\* zero -> smallest subnormal.  (For subnormal x the power underflows to zero: finding F7.)
CodeUlp(f, x) ==
  IF IsZero(f, x) THEN NOne
  ELSE RN(f, <<ZFromInt(1), DLead(Val(f, FAbs(f, x))) - (f.p - 1)>>)
=============================================================================
