------------------------------ MODULE HLOTerms ------------------------------
(***************************************************************************)
(* Generator of graphs for C06 (in addition to PrinterTerms / FATerms /    *)
(* TypedTerms, whose syntax it shares): what the StableHLO and XLA client  *)
(* printers have and the executable targets do not.                        *)
(*   - constants ATTACHED to an operand (`like`) that is itself an         *)
(*     operation: used before / after / without the operand occurring      *)
(*     elsewhere, inline, referenced (used twice) and force-referenced;    *)
(*     complex operands; every named constant x float / real-part operand  *)
(*   - every comparison direction x operand patterns, inside select with   *)
(*     the branches in both orders, nested selects                         *)
(*   - kinds only these targets render natively (asin_acos_kernel, sign,   *)
(*     conjugate, nextafter), operands in both orders for the             *)
(*     non-commutative kinds                                               *)
(*   - sharing with inline binding: a sub-term bound inside an operand of  *)
(*     a later use, clashing reference names, a name equal to a parameter  *)
(* Terms: see PrinterTerms.tla.                                            *)
(***************************************************************************)
EXTENDS FAPrinter

Sym(n, c) == <<"sym", n, c>>
Num(v, like) == <<"num", v, like>>
Named(n, like) == <<"named", n, like>>
Ref(name, force, t) == <<"ref", name, force, t>>
X == Sym("x", "F")
Y == Sym("y", "F")
Z == Sym("z", "C")
W == Sym("w", "C")
Bb == Sym("b", "B")
ReZ == <<"real", Z>>
ImZ == <<"imag", Z>>
AbsX == <<"absolute", X>>
SumXY == <<"add", X, Y>>

AbsZ == <<"absolute", Z>>
AbsZW == <<"absolute", <<"multiply", Z, W>>>>
\* real-valued operations that a constant may be attached to; the moduli of complex values are the likes that the
\* package does NOT normalise away (normalize_like keeps absolute of a complex operand)
FloatLikes == {ReZ, AbsX, SumXY, AbsZ, AbsZW, ImZ}
Vals == {"2", "0.5"}
AttachTerms ==
     UNION {{<<"multiply", Num(v, L), L>>, <<"multiply", L, Num(v, L)>>, <<"subtract", Num(v, L), <<"negative", L>>>>,
             <<"add", Num(v, L), Y>>, <<"add", <<"multiply", Num(v, L), Y>>, Num(v, L)>>,
             <<"add", <<"multiply", Num(v, L), L>>, Num(v, L)>>, <<"add", Y, Ref("k", TRUE, Num(v, L))>>,
             <<"subtract", Ref("k", TRUE, Num(v, L)), L>>, <<"multiply", <<"sqrt", Num(v, L)>>, L>>,
             <<"select", <<"lt", L, Num(v, L)>>, Num("1", L), L>>}
            : v \in Vals, L \in FloatLikes}
  \cup {<<"multiply", Num("2", Z), Z>>, <<"add", Z, Num("0.5", <<"multiply", Z, W>>)>>, <<"add", Num("2", <<"multiply", Z, W>>), W>>,
        <<"complex", Num("1", ReZ), ImZ>>, <<"complex", ReZ, Num("0", ImZ)>>, <<"add", ReZ, Num("2", Z)>>}
  \cup UNION {{<<"add", L, Named(n, L)>>, <<"lt", Named(n, L), L>>, <<"select", Bb, Named(n, L), L>>} : n \in KnownNames, L \in {X, ReZ}}
  \cup {<<"add", <<"multiply", X, Named(n, X)>>, Named(n, X)>> : n \in KnownNames}

Pairs == {<<X, Y>>, <<Y, X>>, <<X, X>>, <<Num("0", X), X>>, <<X, Num("1", X)>>, <<AbsX, ReZ>>}
CompareTerms ==
     {<<k, p[1], p[2]>> : k \in RelKinds, p \in Pairs}
  \cup {<<"select", <<k, X, Y>>, X, Y>> : k \in RelKinds} \cup {<<"select", <<k, X, Y>>, Y, X>> : k \in RelKinds}
  \cup {<<"select", <<k, X, Y>>, <<"select", <<j, X, Y>>, X, Y>>, Y>> : k \in {"lt", "ge"}, j \in {"gt", "le", "eq"}}
  \cup {<<"select", <<k, X, Y>>, X, <<"select", <<j, Y, X>>, Y, X>>>> : k \in {"lt", "ne"}, j \in {"gt", "lt"}}
  \cup {<<"logical_and", <<k, X, Y>>, <<j, X, Y>>>> : k \in {"lt", "le"}, j \in {"gt", "ge", "ne"}}
  \cup {<<"select", Bb, Num("1", X), Num("2", X)>>, <<"select", Bb, Num("2", X), Num("1", X)>>, <<"select", <<"eq", Z, W>>, Z, W>>}

NativeTerms ==
     {<<"asin_acos_kernel", Z>>, <<"sign", X>>, <<"sign", ReZ>>, <<"conjugate", Z>>, <<"nextafter", X, Y>>, <<"nextafter", Y, X>>,
      <<"positive", X>>, <<"add", <<"positive", X>>, Y>>, <<"negative", <<"positive", SumXY>>>>, <<"is_finite", X>>, <<"floor", X>>,
      <<"ceil", X>>, <<"round", X>>, <<"log2", X>>, <<"log10", X>>, <<"expm1", X>>, <<"tan", X>>, <<"cosh", X>>, <<"pow", X, Y>>, <<"pow", Y, X>>,
      <<"remainder", X, Y>>, <<"remainder", Y, X>>}
  \cup {<<k, a, b>> : k \in {"subtract", "divide", "atan2", "complex", "maximum", "minimum"}, a \in {X, AbsX}, b \in {Y, AbsX}}
  \cup {<<k, Bb, <<"lt", X, Y>>>> : k \in {"logical_and", "logical_or", "logical_xor"}} \cup {<<"logical_not", <<"lt", X, Y>>>>}

\* sharing patterns with inline binding
S1 == <<"multiply", X, Y>>
S2 == <<"sqrt", AbsX>>
ShareTerms ==
     {<<"add", <<"negative", s>>, s>> : s \in {S1, S2, AbsX}}                      \* first occurrence nested in an operand
  \cup {<<"add", s, <<"negative", s>>>> : s \in {S1, S2, AbsX}}
  \cup {<<"subtract", <<"multiply", s, t>>, <<"add", t, s>>>> : s \in {S1, AbsX}, t \in {S2}}
  \cup {<<"subtract", Ref("a", TRUE, s), Ref("a", TRUE, t)>> : s \in {S1}, t \in {S2, S1}}
  \cup {<<"subtract", Ref("a", FALSE, s), <<"multiply", Ref("a", FALSE, t), Ref("a", FALSE, t)>>>> : s \in {S1}, t \in {S2}}
  \cup {<<"add", Ref("x", TRUE, s), Y>> : s \in {S1, S2}} \cup {<<"add", Ref("y", TRUE, S2), Ref("x", TRUE, S1)>>}
  \cup {Ref("r", TRUE, <<"add", Ref("a", TRUE, S1), Ref("b", TRUE, S2)>>), <<"select", <<"lt", S2, S1>>, S2, S1>>,
        <<"add", <<"multiply", S2, S2>>, <<"sqrt", <<"multiply", S2, S2>>>>>>}

CONSTANT Gen
VARIABLE n
TermSet == CASE Gen = "attach" -> AttachTerms [] Gen = "compare" -> CompareTerms [] Gen = "native" -> NativeTerms
             [] Gen = "share" -> ShareTerms [] OTHER -> {}
Init == n = 0
Next == /\ n = 0 /\ n' = 1
        /\ \A t \in TermSet : PrintT(<<"H", t>>)
Spec == Init /\ [][Next]_n
=============================================================================
