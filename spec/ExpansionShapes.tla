--------------------------- MODULE ExpansionShapes ---------------------------
(***************************************************************************)
(* U2 for C12: TLC enumerates the discrete SHAPES of the lists the driver  *)
(* (harness/props/c12.py) concretises in float16/32/64, one state per      *)
(* shape, printed as                                                       *)
(*   <<"S", n, rel, zmask, signs, order, cancel>>                          *)
(*  n      length 1..6                                                     *)
(*  rel    for every adjacent pair of the magnitude skeleton (sorted by    *)
(*         decreasing magnitude): "eq" equal magnitude, "ovl" smaller but  *)
(*         overlapping (|b| >= ulp(a)), "adj" just not overlapping (the    *)
(*         leading bit of b is one below the quantum of a: ulp(a)/2 <= |b| *)
(*         < ulp(a)), "gap" separated by more                              *)
(*  zmask  positions (bit i-1 = position i of the final list) replaced by  *)
(*         a signed zero: none, any one, any two, or all                   *)
(*  signs  "pos" all positive, "alt" alternating, "neg1" only the first    *)
(*         negative, "rnd" drawn                                           *)
(*  order  the skeleton as is ("sorted": the docstring's precondition),    *)
(*         "reversed", or "shuffled" (drawn)                               *)
(*  cancel "none"; "pairs": x, -x, y, -y, ... (total cancellation; needs   *)
(*         "eq" at the odd pairs, alternating signs, no zeros); "tail":    *)
(*         the last item is replaced by minus the rounded sum of the       *)
(*         others (massive cancellation in the first 2Sum)                 *)
(* Tier "thorough": every shape.  Tier "quick": the systematic sub-sample  *)
(* of the shapes with n >= 4 whose index is divisible by Stride (all       *)
(* shapes with n <= 3 and all "pairs" shapes are kept).                    *)
(***************************************************************************)
EXTENDS Naturals, Sequences, TLC
CONSTANTS Tier, Stride
VARIABLE c

Rels == <<"eq", "ovl", "adj", "gap">>
SignsSeq == <<"pos", "alt", "neg1", "rnd">>
Orders == <<"sorted", "reversed", "shuffled">>
Cancels == <<"none", "pairs", "tail">>

RECURSIVE Pw(_, _)
Pw(b, k) == IF k = 0 THEN 1 ELSE b * Pw(b, k - 1)
RECURSIVE PopCount(_)
PopCount(m) == IF m = 0 THEN 0 ELSE (m % 2) + PopCount(m \div 2)
ZMasks(n) == {m \in 0..(Pw(2, n) - 1) : PopCount(m) <= 2 \/ m = Pw(2, n) - 1}

\* the relations of the n - 1 pairs are the base-4 digits of rc (pair i = digit i - 1, 0 = "eq" .. 3 = "gap")
Digit(rc, i) == (rc \div Pw(4, i - 1)) % 4
Names(n, rc) == [i \in 1..(n - 1) |-> Rels[Digit(rc, i) + 1]]

Keep(n, rc, z, s, o) ==
  \/ Tier = "thorough"
  \/ n <= 3
  \/ (rc + 3 * z + 5 * s + 7 * o) % Stride = 0

\* <<n, rc, zmask, signs, order, cancel>> as indices
Plain(n) == {t \in ((0..(Pw(4, n - 1) - 1)) \X ZMasks(n) \X (1..4) \X (1..3)) :
                /\ Keep(n, t[1], t[2], t[3], t[4])
                /\ (n = 1 => (t[4] = 1 /\ t[3] \in {1, 3}))}    \* one item: order irrelevant; positive or negative
PairsOK(n, rc) == \A i \in 1..(n - 1) : (i % 2 = 1) => Digit(rc, i) = 0
Shapes ==
  UNION {{<<n, t[1], t[2], t[3], t[4], 1>> : t \in Plain(n)} : n \in 1..6}
  \cup UNION {{<<n, rc, 0, 2, o, 2>> : rc \in {q \in 0..(Pw(4, n - 1) - 1) : PairsOK(n, q)}, o \in 1..3} : n \in {2, 4, 6}}
  \cup UNION {{<<n, t[1], 0, t[3], t[4], 3>> : t \in {u \in Plain(n) : u[2] = 0}} : n \in 2..6}

Init == c \in Shapes
Next == UNCHANGED c
Spec == Init /\ [][Next]_c
Emit == PrintT(<<"S", c[1], Names(c[1], c[2]), c[3], SignsSeq[c[4]], Orders[c[5]], Cancels[c[6]]>>)
=============================================================================
