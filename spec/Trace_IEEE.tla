----------------------------- MODULE Trace_IEEE -----------------------------
(***************************************************************************)
(* Self-validation of the oracle: the hardware's (NumPy's) results of      *)
(* + - * on recorded operand bit patterns must equal IEEE.tla's.  Run by   *)
(* the self-test, not a property check: it protects every numeric trace    *)
(* spec below from a bug in BigInt/IEEE (which would otherwise surface as  *)
(* a false alarm).                                                          *)
(***************************************************************************)
EXTENDS IEEE, TraceKit
VARIABLE l

Fails(e) ==
  LET f == FmtOf(e.fmt)
      a == e.a  b == e.b  r == e.r
      fin == IsFinite(f, a) /\ IsFinite(f, b)
  IN  IF ~fin THEN {}
      ELSE (IF e.op = "add" /\ r # FAdd(f, a, b) THEN {"add"} ELSE {})
      \cup (IF e.op = "sub" /\ r # FSub(f, a, b) THEN {"sub"} ELSE {})
      \cup (IF e.op = "mul" /\ r # FMul(f, a, b) THEN {"mul"} ELSE {})
      \cup (IF e.op = "div" /\ ~IsZero(f, b) /\ r # FDiv(f, a, b) THEN {"div"} ELSE {})
      \cup (IF e.op = "sqrt" /\ SignBit(f, a) = 0 /\ r # FSqrt(f, a) THEN {"sqrt"} ELSE {})
      \cup (IF e.op = "lt" /\ (r = <<1>>) # FLt(f, a, b) THEN {"lt"} ELSE {})
      \cup (IF e.op = "next" /\ IsFinite(f, a) /\ r # NextUp(f, a) THEN {"next"} ELSE {})
      \cup (IF e.op = "val" /\ ~IsRN(f, Val(f, a), a) /\ ~IsZero(f, a) THEN {"val_rn"} ELSE {})

Init == l = 1
Next == /\ l <= Len(Trace)
        /\ Report(Trace[l], Fails(Trace[l]))
        /\ l' = l + 1
Spec == Init /\ [][Next]_l
=============================================================================
