------------------------------ MODULE Rounding ------------------------------
(***************************************************************************)
(* C15 - multiprecision reference values are rounded correctly to the      *)
(* target type.                                                            *)
(*                                                                         *)
(* A multiprecision value (mpmath mpf) is its raw tuple (sign, man, exp):  *)
(* the exact dyadic (-1)^sign * man * 2^exp.  The target type is an IEEE   *)
(* format f of IEEE.tla; results are raw bit patterns.                     *)
(*                                                                         *)
(* Conversion clauses (statement: "returns the nearest representable value *)
(* (ties to even) whenever that value is a normal number, signed infinity  *)
(* beyond the overflow threshold, a signed zero below half the smallest    *)
(* subnormal"):                                                            *)
(*   zero          value = 0                       => a zero               *)
(*   overflow_inf  |value| >= (2 - 2^-p) 2^emax    => infinity, value's sign*)
(*   tiny_zero     |value| <  2^(QMin-1)           => zero, value's sign   *)
(*   normal_rn     RN(value) is a normal number    => exactly RN(value)    *)
(*   special       mpf inf / nan                   => inf (same sign) / nan*)
(* Leniencies: NOTHING is demanded when RN(value) is subnormal, or at      *)
(* exactly half the smallest subnormal (both are only noted when the code  *)
(* differs from RN); the sign of an exact zero result is free; when the    *)
(* caller passes flush_subnormals=True to the conversion, a value whose    *)
(* magnitude is below the smallest normal may also become a signed zero    *)
(* even when RN would round it up to the smallest normal.                  *)
(*                                                                         *)
(* Backend clauses (statement: "a function evaluated through the           *)
(* multiprecision backend on float inputs returns the correctly rounded    *)
(* result of the function on exactly those inputs, with subnormal inputs   *)
(* and outputs preserved unless flushing was explicitly requested"): for   *)
(* functions whose exact value this module computes (identity, negation,   *)
(* + - * and squaring: exact dyadic arithmetic) the result must be         *)
(* RN(exact) - see BEFails for the clause names and the leniencies in the  *)
(* subnormal output range and under an explicit flush request.             *)
(***************************************************************************)
EXTENDS IEEE

MpfVal(sign, man, exp) == DMk(ZMk(sign, man), exp)

PosD(mag, e) == <<<<0, mag>>, e>>
HalfMinSubD(f) == PosD(NOne, QMin(f) - 1)               \* half the smallest subnormal
MinSubD(f) == PosD(NOne, QMin(f))
MinNormalD(f) == PosD(NOne, EMin(f))
LargestD(f) == PosD(NSub(NPow2(f.p), NOne), QMax(f))
\* overflow threshold (2 - 2^-p) * 2^emax: midpoint of the largest finite number and 2^(emax+1)
OverflowD(f) == PosD(NSub(NPow2(f.p + 1), NOne), f.emax - f.p)

Overflows(f, d) == DLe(OverflowD(f), DAbs(d))
Tiny(f, d) == DLt(DAbs(d), HalfMinSubD(f))
InSubRange(f, d) == ~DIsZero(d) /\ DLt(DAbs(d), MinNormalD(f))
SignedZero(f, s) == WithSign(f, s, <<>>)
SignedInf(f, s) == WithSign(f, s, InfMag(f))

\* round to nearest even to q significant bits, unbounded exponent
RNPrec(q, d) ==
  IF DIsZero(d) THEN d
  ELSE LET qq == DLead(d) - (q - 1)
       IN  DMk(ZMk(d[1][1], RoundMagRNE(d, qq)), qq)

(*************************** conversion ************************************)
\* An EXPLICIT flush request and 0 < |d| < 2^emin (precondition InSubRange(f, d)), rn = RN(f, d):
\*  - rn is normal (d rounds up to +-2^emin on the lattice): the statement's first clause demands rn.  The package
\*    rounds to p bits with unbounded exponent first and flushes what is still below 2^emin, so it returns a zero for
\*    |d| in [2^emin - 2^(emin-p), 2^emin - 2^(emin-p-1)): clause flush_boundary_pbit (a known finding: flushing is
\*    decided after a p-bit rounding, not on the lattice); any other zero there is a plain normal_rn;
\*  - rn is subnormal or a zero: the request must be honoured, a signed zero is demanded (flush_not_honoured).
M2FFlushFails(f, d, rn, bits) ==
  LET s == d[1][1]
  IN  IF IsNormal(f, rn) THEN
        (IF bits = rn THEN {}
         ELSE IF bits = SignedZero(f, s) /\ DLt(DAbs(RNPrec(f.p, d)), MinNormalD(f)) THEN {"flush_boundary_pbit"}
         ELSE {"normal_rn"})
      ELSE IF bits = SignedZero(f, s) THEN {} ELSE {"flush_not_honoured"}

\* names of the clauses that bits = mpf2float(f, d) violates; flush is the
\* flush_subnormals argument the caller passed to the conversion; rn = RN(f, d)
\* (passed in so that a trace spec evaluates it once per event)
M2FFailsR(f, d, rn, bits, flush) ==
  IF DIsZero(d) THEN (IF IsZero(f, bits) THEN {} ELSE {"zero"})
  ELSE LET s == d[1][1]
       IN  IF Overflows(f, d) THEN (IF bits = SignedInf(f, s) THEN {} ELSE {"overflow_inf"})
           ELSE IF Tiny(f, d) THEN (IF bits = SignedZero(f, s) THEN {} ELSE {"tiny_zero"})
           ELSE IF flush /\ InSubRange(f, d) THEN M2FFlushFails(f, d, rn, bits)
           ELSE IF ~IsNormal(f, rn) \/ bits = rn THEN {}
           ELSE {"normal_rn"}
M2FFails(f, d, bits, flush) == M2FFailsR(f, d, RN(f, d), bits, flush)

\* not a clause: the code is not RN where the statement demands nothing
M2FNotRNR(f, d, rn, bits) == ~DIsZero(d) /\ bits # rn /\ ~IsNormal(f, rn) /\ ~Overflows(f, d) /\ ~Tiny(f, d)
M2FNotRN(f, d, bits) == M2FNotRNR(f, d, RN(f, d), bits)

\* Transcription of the implementation's algorithm (used for U1 and for drift
\* notes only): round to p significant bits (nearest even), then flush by the
\* position of the leading bit / overflow by it, then place on the lattice
\* with a second rounding (ldexp).
CodeM2F(f, d, flush) ==
  IF DIsZero(d) THEN PosZero(f)
  ELSE LET s == d[1][1]
           c == DCanon(RNPrec(f.p, d))
           top == c[2] + NBitLen(c[1][2])
           zexp == IF flush THEN EMin(f) + 1 ELSE QMin(f) + 1
       IN  IF top < zexp THEN SignedZero(f, s)
           ELSE IF top > f.emax + 1 THEN SignedInf(f, s)
           ELSE RN(f, c)

(*************************** backend ***************************************)
Unary == {"id", "pos", "neg", "sq"}
Binary == {"add", "sub", "mul"}

\* exact value of fn on finite inputs
BExact(f, fn, a, b) ==
  CASE fn \in {"id", "pos"} -> Val(f, a)
    [] fn = "neg" -> DNeg(Val(f, a))
    [] fn = "sq" -> DMul(Val(f, a), Val(f, a))
    [] fn = "add" -> DAdd(Val(f, a), Val(f, b))
    [] fn = "sub" -> DSub(Val(f, a), Val(f, b))
    [] fn = "mul" -> DMul(Val(f, a), Val(f, b))

\* flush \in {"unspec", "false", "true"}: what the caller said about flushing;
\* xtra: extra working precision in bits the caller configured;
\* drfail: whether a result that is exactly "rounded twice" (first to p + xtra
\* bits, then to the format) counts as a failure of "correctly rounded".
\* Clauses:
\*   backend_special            inf/nan input of a unary function not propagated
\*   backend_zero               exact result 0 but result is not a zero
\*   backend_subnormal_flushed  a subnormal-range result was replaced by zero (no explicit request)
\*   backend_subnormal_far      subnormal-range result further than one lattice step from RN
\*   backend_double_rounding    result = RN(RN_{p+xtra}(exact)) # RN(exact), xtra > 0
\*   backend_rn                 any other difference from RN(exact)
\*   backend_flush_not_honoured / backend_flush_boundary_pbit / backend_normal_rn: explicit flush request and an
\*                              exact result in the subnormal range (see M2FFlushFails)
\* Leniencies: with an explicit flush request nothing is demanded when an input
\* is subnormal; when RN(exact)
\* is subnormal or zero-by-rounding and exact is not representable, one lattice step of error
\* is tolerated (the conversion clause demands nothing there).
BEFails(f, fn, a, b, flush, xtra, r, drfail) ==
  LET unary == fn \in Unary
      fin == IsFinite(f, a) /\ (unary \/ IsFinite(f, b))
  IN
  IF ~fin THEN
     (IF ~unary \/ fn = "sq" THEN {}
      ELSE IF IsNaN(f, a) THEN (IF IsNaN(f, r) THEN {} ELSE {"backend_special"})
      ELSE IF r = (IF fn = "neg" THEN FNeg(f, a) ELSE a) THEN {} ELSE {"backend_special"})
  ELSE
  LET d == BExact(f, fn, a, b)
      subin == IsSubnormal(f, a) \/ (~unary /\ IsSubnormal(f, b))
  IN
  IF flush = "true" /\ subin THEN {}
  ELSE IF flush = "true" /\ InSubRange(f, d) THEN
     \* explicit flush, normal (or zero) inputs, exact result in the subnormal range: the conversion clause for
     \* an explicit flush request, on d or - with extra working precision - on d rounded to that precision
     (LET f1 == IF DLt(DAbs(d), HalfMinSubD(f)) THEN (IF IsZero(f, r) THEN {} ELSE {"tiny_zero"})
                ELSE M2FFlushFails(f, d, RN(f, d), r)
          d2 == RNPrec(f.p + xtra, d)
      IN  IF f1 = {} THEN {}
          ELSE IF xtra > 0 /\ InSubRange(f, d2) /\ ~DLt(DAbs(d2), HalfMinSubD(f)) /\ M2FFlushFails(f, d2, RN(f, d2), r) = {}
               THEN (IF drfail THEN {"backend_double_rounding"} ELSE {})
          ELSE {"backend_" \o c : c \in f1})
  ELSE IF DIsZero(d) THEN (IF IsZero(f, r) THEN {} ELSE {"backend_zero"})
  ELSE
  LET rn == RN(f, d)
  IN
  IF r = rn THEN {}
  ELSE
  LET repr == IsFinite(f, rn) /\ DEq(Val(f, rn), d)
      subout == IsSubnormal(f, rn) \/ IsZero(f, rn)
      flushed == IsZero(f, r) /\ InSubRange(f, d) /\ ~IsZero(f, rn)
      near == IsFinite(f, r) /\ NCmp(Dist(f, r, rn), NOne) <= 0
  IN
  IF flushed /\ (repr \/ ~near) THEN {"backend_subnormal_flushed"}
  ELSE IF subout /\ ~repr THEN (IF near THEN {} ELSE {"backend_subnormal_far"})
  ELSE IF xtra > 0 /\ r = RN(f, RNPrec(f.p + xtra, d))
       THEN (IF drfail THEN {"backend_double_rounding"} ELSE {})
  ELSE {"backend_rn"}

\* notes (never failures) about a backend result
BENotes(f, fn, a, b, flush, xtra, r) ==
  LET unary == fn \in Unary
      fin == IsFinite(f, a) /\ (unary \/ IsFinite(f, b))
  IN  IF ~fin THEN {}
      ELSE LET d == BExact(f, fn, a, b)
               rn == RN(f, d)
           IN  IF DIsZero(d) \/ r = rn THEN
                  (IF flush = "true" /\ InSubRange(f, d) /\ ~IsZero(f, rn) /\ r = rn
                   THEN {"explicit_flush_not_applied"} ELSE {})
               ELSE IF flush = "true" /\ (InSubRange(f, d) \/ IsSubnormal(f, a) \/ (~unary /\ IsSubnormal(f, b)))
                    THEN {"explicit_flush_result"}
               ELSE IF (IsSubnormal(f, rn) \/ IsZero(f, rn)) THEN {"backend_sub_not_rn"} ELSE {}

(*************************** shape labels (coverage claims) ****************)
\* does the value d have the shape the driver says it generated?  n is the
\* number of mantissa bits the driver used; the tail is what the target
\* lattice discards at d's binade.  A mismatch is a harness defect.
ShapeHolds(f, d, tail, n) ==
  LET ad == DAbs(d)
      edge(t) == t \in {"ovf", "ovf_m", "ovf_p", "maxfin", "twoemax", "half", "half_m", "half_p", "minsub", "zero"}
  IN
  IF tail = "zero" THEN DIsZero(d)
  ELSE IF DIsZero(d) THEN FALSE
  ELSE IF edge(tail) THEN
    CASE tail = "ovf" -> DEq(ad, OverflowD(f))
      [] tail = "ovf_m" -> DEq(DAdd(ad, PosD(NOne, f.emax - (n - 1))), OverflowD(f))
      [] tail = "ovf_p" -> DEq(ad, DAdd(OverflowD(f), PosD(NOne, f.emax - (n - 1))))
      [] tail = "maxfin" -> DEq(ad, LargestD(f))
      [] tail = "twoemax" -> DEq(ad, PosD(NOne, f.emax + 1))
      [] tail = "half" -> DEq(ad, HalfMinSubD(f))
      [] tail = "half_m" -> DEq(DAdd(ad, PosD(NOne, QMin(f) - 1 - n)), HalfMinSubD(f))
      [] tail = "half_p" -> DEq(ad, DAdd(HalfMinSubD(f), PosD(NOne, QMin(f) - n)))
      [] tail = "minsub" -> DEq(ad, MinSubD(f))
  ELSE
  LET q == RQuantum(f, d)
      u == DLead(d) - (n - 1)
      room == q - u
  IN  IF d[2] < u THEN FALSE
      ELSE LET mn == DAlign(ad, u)[2]
               t == IF room > 0 THEN NLow(mn, room) ELSE <<>>
           IN  CASE tail = "exact" -> t = <<>>
                 [] tail = "tie" -> room >= 1 /\ t = NPow2(room - 1)
                 [] tail = "tie_m" -> room >= 2 /\ t = NSub(NPow2(room - 1), NOne)
                 [] tail = "tie_p" -> room >= 2 /\ t = NAdd(NPow2(room - 1), NOne)
                 [] tail = "allones" -> mn = NSub(NPow2(n), NOne)
                 [] OTHER -> TRUE
=============================================================================
