\* U1 of C11, thorough: T3 = [p = 3, emax = 3, w = 6]; ALL 262144 triples for sum3 and muladd, every 3rd triple for the 32 fma variants, every 251st quadruple (66842) for sum4, dot2
SPECIFICATION Spec
CONSTANTS
  Fmt = "T3"
  Ops = "multi"
  Stride3 = 1
  StrideF = 3
  Stride4 = 251
  Off = 0
  XAdd <- TabAdd
  XMul <- TabMul
  XNeg <- TabNeg
  XAbs <- TabAbs
  XLt <- TabLt
  XLe <- TabLe
  XEq <- TabEq
  Val <- TabVal
  COne <- TabCOne
  C32 <- TabC32
  C98 <- TabC98
  C78 <- TabC78
  CQ <- TabCQ
  CP <- TabCP
  CQ13 <- TabCQ13
  CP13 <- TabCP13
  CSplitN <- TabCSplitN
  CSplitC <- TabCSplitC
  CSplitInvN <- TabCSplitInvN
  CXMax <- TabCXMax
  CLargest <- TabCLargest
  CNext <- TabCNext
INVARIANT Holds
CHECK_DEADLOCK FALSE
