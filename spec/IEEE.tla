-------------------------------- MODULE IEEE --------------------------------
(***************************************************************************)
(* Format-parametric model of IEEE-754 binary interchange formats over     *)
(* exact integers.  A format is a record [p, emax, w]: precision p         *)
(* (significand bits including the hidden bit), maximum exponent emax and  *)
(* total width w.  A datum is its raw bit pattern as a BigInt natural.     *)
(*                                                                         *)
(* The magnitude bits (pattern without the sign bit) of a finite number    *)
(* with integer significand m and quantum exponent q (value m * 2^q) are   *)
(*      mag = (q - QMin) * 2^(p-1) + m                                     *)
(* which is uniform over subnormal and normal numbers and makes the        *)
(* magnitude bits the ordinal of |x| on the float lattice.                 *)
(***************************************************************************)
EXTENDS BigInt

F16 == [p |-> 11, emax |-> 15, w |-> 16]
F32 == [p |-> 24, emax |-> 127, w |-> 32]
F64 == [p |-> 53, emax |-> 1023, w |-> 64]
BF16 == [p |-> 8, emax |-> 127, w |-> 16]
FmtOf(name) == CASE name = "float16" -> F16 [] name = "float32" -> F32
                 [] name = "float64" -> F64 [] name = "bfloat16" -> BF16

EMin(f) == 1 - f.emax
QMin(f) == EMin(f) - (f.p - 1)                  \* quantum of subnormals
QMax(f) == f.emax - (f.p - 1)
NExpFields(f) == Pow2(f.w - f.p)                \* number of exponent field values
InfMag(f) == NShl(NFromInt(NExpFields(f) - 1), f.p - 1)
LargestMag(f) == NSub(InfMag(f), NOne)
MinNormalMag(f) == NPow2(f.p - 1)

SignBit(f, bits) == NBit(bits, f.w - 1)
Mag(f, bits) == NLow(bits, f.w - 1)
WithSign(f, neg, mag) == IF neg = 1 THEN NAdd(mag, NPow2(f.w - 1)) ELSE mag

IsNaN(f, bits) == NCmp(Mag(f, bits), InfMag(f)) > 0
IsInf(f, bits) == Mag(f, bits) = InfMag(f)
IsFinite(f, bits) == NCmp(Mag(f, bits), InfMag(f)) < 0
IsZero(f, bits) == Mag(f, bits) = <<>>
IsSubnormal(f, bits) == Mag(f, bits) # <<>> /\ NCmp(Mag(f, bits), MinNormalMag(f)) < 0
IsNormal(f, bits) == IsFinite(f, bits) /\ NCmp(Mag(f, bits), MinNormalMag(f)) >= 0

PosInf(f) == InfMag(f)
NegInf(f) == WithSign(f, 1, InfMag(f))
PosZero(f) == <<>>
NegZero(f) == WithSign(f, 1, <<>>)

\* integer significand and quantum exponent of a finite pattern
ExpField(f, bits) == NToInt(NShr(Mag(f, bits), f.p - 1))
Frac(f, bits) == NLow(bits, f.p - 1)
Sig(f, bits) == IF ExpField(f, bits) = 0 THEN Frac(f, bits)
                ELSE NAdd(Frac(f, bits), NPow2(f.p - 1))
Quantum(f, bits) == IF ExpField(f, bits) = 0 THEN QMin(f)
                    ELSE QMin(f) + ExpField(f, bits) - 1

\* exact value of a finite pattern as a dyadic
Val(f, bits) == DMk(ZMk(SignBit(f, bits), Sig(f, bits)), Quantum(f, bits))

\* signed ordinal on the lattice: +-0 -> 0, next representable -> +-1, inf -> +-InfMag
Ord(f, bits) == ZMk(SignBit(f, bits), Mag(f, bits))
\* lattice distance |Ord(x) - Ord(y)| as a natural
Dist(f, x, y) == ZSub(Ord(f, x), Ord(f, y))[2]
FromOrd(f, z) == WithSign(f, z[1], z[2])

\* quantum of the result of rounding a non-zero dyadic d to the format
RQuantum(f, d) == Max(DLead(d) - (f.p - 1), QMin(f))

\* |d| / 2^q rounded to nearest, ties to even (q > d[2] shifts right)
RoundMagRNE(d, q) ==
  LET a == d[1][2]
      k == q - d[2]
  IN  IF k <= 0 THEN NShl(a, -k)
      ELSE LET m == NShr(a, k)
               r == NLow(a, k)
               c == NCmp(r, NPow2(k - 1))
           IN  IF c > 0 \/ (c = 0 /\ NIsOdd(m)) THEN NAdd(m, NOne) ELSE m
\* directed variants: toward zero / away from zero of the magnitude
RoundMagDown(d, q) == LET k == q - d[2] IN IF k <= 0 THEN NShl(d[1][2], -k) ELSE NShr(d[1][2], k)
RoundMagUp(d, q) ==
  LET k == q - d[2]
  IN  IF k <= 0 THEN NShl(d[1][2], -k)
      ELSE IF NLow(d[1][2], k) = <<>> THEN NShr(d[1][2], k)
      ELSE NAdd(NShr(d[1][2], k), NOne)

MagOf(f, m, q) == NAdd(NShl(NFromInt(q - QMin(f)), f.p - 1), m)
ClampInf(f, mag) == IF NCmp(mag, InfMag(f)) >= 0 THEN InfMag(f) ELSE mag

\* round to nearest even; zsign (0/1) is the sign given to an exact zero
RNs(f, d, zsign) ==
  IF DIsZero(d) THEN WithSign(f, zsign, <<>>)
  ELSE LET q == RQuantum(f, d)
       IN  WithSign(f, d[1][1], ClampInf(f, MagOf(f, RoundMagRNE(d, q), q)))
RN(f, d) == RNs(f, d, 0)

\* bits is a correctly rounded image of the exact dyadic d (sign of zero free
\* when d = 0; when d # 0 rounds to zero the zero carries d's sign)
IsRN(f, d, bits) == IF DIsZero(d) THEN IsZero(f, bits) ELSE bits = RN(f, d)
Exact(f, d) == ~DIsZero(d) => (IsFinite(f, RN(f, d)) /\ DEq(Val(f, RN(f, d)), d))
Representable(f, d) == DIsZero(d) \/ (IsFinite(f, RN(f, d)) /\ DEq(Val(f, RN(f, d)), d))

\* rounding toward -inf / +inf / zero (for MXCSR rounding-control effects)
RDir(f, d, dir) ==
  IF DIsZero(d) THEN PosZero(f)
  ELSE LET q == RQuantum(f, d)
           neg == d[1][1]
           away == (dir = "up" /\ neg = 0) \/ (dir = "down" /\ neg = 1)
           m == IF away THEN RoundMagUp(d, q) ELSE RoundMagDown(d, q)
           mag == MagOf(f, m, q)
       IN  WithSign(f, neg, IF NCmp(mag, InfMag(f)) >= 0
                            THEN (IF away THEN InfMag(f) ELSE LargestMag(f)) ELSE mag)

\* neighbours on the lattice (finite x; saturating at infinity)
NextUp(f, x) == FromOrd(f, ZAdd(Ord(f, x), ZFromInt(1)))
NextDown(f, x) == FromOrd(f, ZSub(Ord(f, x), ZFromInt(1)))

\* unit in the last place of a finite x: spacing above |x|
UlpD(f, x) == <<ZFromInt(1), Quantum(f, x)>>

\* IEEE arithmetic on finite operands, as functions (round to nearest even).
\* Signed-zero rules for exact zero results follow IEEE 754 section 6.3.
FAdd(f, x, y) ==
  LET d == DAdd(Val(f, x), Val(f, y))
  IN  RNs(f, d, IF SignBit(f, x) = 1 /\ SignBit(f, y) = 1 THEN 1 ELSE 0)
FNeg(f, x) == WithSign(f, 1 - SignBit(f, x), Mag(f, x))
FAbs(f, x) == Mag(f, x)
FSub(f, x, y) == FAdd(f, x, FNeg(f, y))
FMul(f, x, y) ==
  RNs(f, DMul(Val(f, x), Val(f, y)), (SignBit(f, x) + SignBit(f, y)) % 2)
\* x / y = r as a relation: r is RN of the quotient iff r's rounding interval contains it.
\* Decided without division: |x| vs the midpoints of r's neighbours times |y|.
\* (Provided for completeness; used by trace specs that log the quotient.)
FMAExact(f, x, y, z) == DAdd(DMul(Val(f, x), Val(f, y)), Val(f, z))

\* correctly rounded quotient of finite x, y (y # 0): integer quotient with p+3 extra bits and
\* a sticky bit; the sticky bit sits below at least two guard bits so RN of it is RN of x/y
FDiv(f, x, y) ==
  LET mx == Sig(f, x)  my == Sig(f, y)
      k == f.p + 3 + NBitLen(my)
      qr == NDivMod(NShl(mx, k), my)
      m == NAdd(NShl(qr[1], 1), IF qr[2] = <<>> THEN <<>> ELSE NOne)
      neg == (SignBit(f, x) + SignBit(f, y)) % 2
  IN  RNs(f, DMk(ZMk(neg, m), Quantum(f, x) - Quantum(f, y) - k - 1), neg)
\* correctly rounded square root of a finite x >= 0
FSqrt(f, x) ==
  IF IsZero(f, x) THEN x
  ELSE LET m == Sig(f, x)
           e == Quantum(f, x)
           k0 == Max(0, 2 * f.p + 6 - NBitLen(m))
           k == IF (e - k0) % 2 = 0 THEN k0 ELSE k0 + 1
           a == NShl(m, k)
           r == NSqrt(a)
           mm == NAdd(NShl(r, 1), IF NMul(r, r) = a THEN <<>> ELSE NOne)
       IN  RN(f, DMk(ZMk(0, mm), (e - k) \div 2 - 1))

\* comparison of finite values
FLt(f, x, y) == DLt(Val(f, x), Val(f, y))
FLe(f, x, y) == DLe(Val(f, x), Val(f, y))
FEq(f, x, y) == DEq(Val(f, x), Val(f, y))

\* number of significant bits of a finite non-zero value (span of its odd mantissa)
SigBits(f, x) == IF IsZero(f, x) THEN 0 ELSE NBitLen(DCanon(Val(f, x))[1][2])

\* all patterns of a (small) format as naturals
AllBits(f) == {NFromInt(i) : i \in 0..(Pow2(f.w) - 1)}     \* f.w <= 16
FiniteBits(f) == {b \in AllBits(f) : IsFinite(f, b)}
=============================================================================
