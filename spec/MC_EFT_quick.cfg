\* U1 of C10, quick: all ordered pairs of T4 = [p=4, emax=3, w=7] (112 finite patterns) for 2Sum / Fast2Sum / Dekker on
\* every splitter configuration; every finite operand of T4, T5 = [p=5, emax=7, w=9], T6 = [p=6, emax=7, w=10],
\* T7 = [p=7, emax=7, w=11] for the splitter (every option, every split point)
SPECIFICATION Spec
CONSTANTS
  PairFmts <- MC_T4
  SplitFmts <- MC_T4567
  TripleFmts <- MC_None
  HalfFmts <- MC_None
INVARIANTS Emit Holds WholeRange
CHECK_DEADLOCK FALSE
