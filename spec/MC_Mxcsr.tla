------------------------------ MODULE MC_Mxcsr ------------------------------
(* Model-checking instances of Mxcsr (constants that a cfg file cannot spell). *)
EXTENDS Mxcsr

\* 18 requests: FZ in {None,0,1} x DAZ in {None,1} x RN in {None, nearest, up}
MC_ReqSmall == [fz : {None, 0, 1}, daz : {None, 1}, rn : {None, 0, 2}]
\* all 45 requests
MC_ReqAll == [fz : {None, 0, 1}, daz : {None, 0, 1}, rn : {None, 0, 1, 2, 3}]
\* two start values: the power-on default 0x1F80 and a word with FZ, RC=down, the divide-by-zero mask cleared, a flag set
MC_InitRegs == {[fz |-> 0, daz |-> 0, rc |-> 0, masks |-> 63, flags |-> 0],
                [fz |-> 1, daz |-> 0, rc |-> 1, masks |-> 59, flags |-> 2]}
\* 4 requests touching different fields (for deep nesting with 3 objects)
MC_ReqTiny == {[fz |-> 1, daz |-> None, rn |-> None], [fz |-> None, daz |-> 1, rn |-> None],
               [fz |-> None, daz |-> None, rn |-> 2], [fz |-> 0, daz |-> None, rn |-> 3]}
MC_Objs3 == {1, 2, 3}
MC_Objs2 == {1, 2}
=============================================================================
