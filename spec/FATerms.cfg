SPECIFICATION Spec
CONSTANTS
  Gen = "small"
  MaxOps = 2
  NumRandom = 100
  MaxDepth = 4
CHECK_DEADLOCK FALSE
