---------------------------- MODULE MC_ArgReduce ----------------------------
(***************************************************************************)
(* U1 (MC_ArgReduce.cfg, What = "consts"): the property is about the real  *)
(* constants ln 2 and pi, not about a small scope, so the design-level run *)
(* PROVES the two enclosures of ArgReduceConsts inside TLA+ instead of     *)
(* trusting the generator (mpmath):                                        *)
(*   "ln2"  ln 2 = 2 atanh(1/3) = 2 Sum_n 1 / ((2n+1) 3^(2n+1))            *)
(*   "pi"   Machin: pi = 16 atan(1/5) - 4 atan(1/239)                      *)
(* evaluated in fixed point with W = bits + Guard fraction bits.  Every    *)
(* term floor(2^W / ((2n+1) q^(2n+1))) is exact (nested floors compose);   *)
(* the series is summed until the power underflows to 0 (m terms), so the  *)
(* floors lose < m units and the omitted tail < 1 unit (geometric /        *)
(* alternating bound).  The invariants state                               *)
(*   Num * 2^Guard <= lower bound  and  upper bound <= (Num + 1) * 2^Guard *)
(* i.e. the real constant lies in the enclosure - all its digits.          *)
(*   "rn"   the enclosure ends round to the familiar float64 / float32 /   *)
(*          float16 patterns of ln 2 and pi (independent literals)         *)
(*   "div"  NDivSmall (used by the series) agrees with BigInt!NDivMod on   *)
(*          DivCases cases                                                 *)
(*   "logic" the three-valued comparison Within/AtMost on a grid           *)
(* Constants: Guard = 48.                                                  *)
(*                                                                         *)
(* U2 (MC_ArgReduce_shapes.cfg, What = "shapes"): enumeration of the input *)
(* shape classes (function x format x class) the driver concretises.       *)
(***************************************************************************)
EXTENDS ArgReduce, TLC
CONSTANTS What, Guard, DivCases
VARIABLE st

(*************************** series ****************************************)
\* pw = floor(2^W / q^(2n+1)); ev / od = sums of the terms with even / odd n
RECURSIVE Series(_, _, _, _, _)
Series(pw, q, n, ev, od) ==
  IF pw = <<>> THEN [even |-> ev, odd |-> od, terms |-> n]
  ELSE LET term == NDivSmall(pw, 2 * n + 1)
           nxt == NDivSmall(NDivSmall(pw, q), q)
       IN  IF n % 2 = 0 THEN Series(nxt, q, n + 1, NAdd(ev, term), od)
           ELSE Series(nxt, q, n + 1, ev, NAdd(od, term))
OddPowers(q, w) == Series(NDivSmall(NPow2(w), q), q, 0, <<>>, <<>>)

\* 2^W * ln 2  in  [2 S, 2 S + 2 m + 2],  S = sum of all floored terms
Ln2Proved ==
  LET w == Ln2Bits + Guard
      s == OddPowers(3, w)
      lo == NShl(NAdd(s.even, s.odd), 1)
      hi == NAdd(lo, NFromInt(2 * s.terms + 2))
  IN  /\ s.terms > 60
      /\ NLe(NShl(Ln2Num, Guard), lo)
      /\ NLe(hi, NShl(NAdd(Ln2Num, NOne), Guard))

\* 2^W * atan(1/q)  in  [ev - od - (m + 1), ev - od + (m + 1)]
AtanLo(s) == ZSub(ZSub(ZFromNat(s.even), ZFromNat(s.odd)), ZFromInt(s.terms + 1))
AtanHi(s) == ZAdd(ZSub(ZFromNat(s.even), ZFromNat(s.odd)), ZFromInt(s.terms + 1))
PiProved ==
  LET w == PiBits + Guard
      a == OddPowers(5, w)
      b == OddPowers(239, w)
      lo == ZSub(ZShl(AtanLo(a), 4), ZShl(AtanHi(b), 2))
      hi == ZSub(ZShl(AtanHi(a), 4), ZShl(AtanLo(b), 2))
  IN  /\ a.terms > 250 /\ b.terms > 60
      /\ ZLe(ZFromNat(NShl(PiNum, Guard)), lo)
      /\ ZLe(hi, ZFromNat(NShl(NAdd(PiNum, NOne), Guard)))

(*************************** familiar patterns *****************************)
Ln2F64 == <<14831, 32244, 14603, 32561, 3>>      \* 0x3FE62E42FEFA39EF
PiF64 == <<11544, 10376, 2029, 73, 4>>           \* 0x400921FB54442D18
Ln2F32 == <<29208, 32354>>                       \* 0x3F317218
PiF32 == <<4059, 146, 1>>                        \* 0x40490FDB
Ln2F16 == <<14732>>                              \* 0x398C
PiF16 == <<16968>>                               \* 0x4248
RoundsTo == /\ RN(F64, Ln2L) = Ln2F64 /\ RN(F64, Ln2U) = Ln2F64
            /\ RN(F64, PiL) = PiF64 /\ RN(F64, PiU) = PiF64
            /\ RN(F32, Ln2L) = Ln2F32 /\ RN(F32, Ln2U) = Ln2F32
            /\ RN(F32, PiL) = PiF32 /\ RN(F32, PiU) = PiF32
            /\ RN(F16, Ln2L) = Ln2F16 /\ RN(F16, PiU) = PiF16
            /\ DLt(Ln2L, Ln2U) /\ DLt(PiL, PiU)
            /\ DEq(DSub(Ln2U, Ln2L), <<ZFromInt(1), -Ln2Bits>>)
            /\ DEq(DSub(PiU, PiL), <<ZFromInt(1), -PiBits>>)

(*************************** small division ********************************)
DivOK ==
  \A i \in 1..DivCases :
    LET a == NMul(NFromInt(i * 7919 + 13), NMul(NFromInt(i * 104729 + 1), NFromInt(32749 * i + 5)))
        d == 1 + ((i * 2731) % (B - 1))
    IN  NDivSmall(a, d) = NDivMod(a, NFromInt(d))[1]

(*************************** three-valued comparison ***********************)
Grid == -6..6
LogicOK ==
  \A a \in Grid, c \in Grid, b \in 0..4 :
    LET lo == Min(a, c)  hi == Max(a, c)
        w == Within(DFromInt(a), DFromInt(c), DFromInt(b))
        allin == \A e \in lo..hi : e >= -b /\ e <= b
        allout == \A e \in lo..hi : e < -b \/ e > b
    IN  /\ (w = "sat") = allin
        /\ (w = "viol") = allout
        /\ (w = "undec") = (~allin /\ ~allout)
AtMostOK ==
  \A a \in 0..12, m \in 1..3, cl \in 1..4 :
    LET w == AtMost(DFromInt(a), DFromInt(m), DFromInt(cl), DFromInt(cl + 1))
    IN  /\ (w = "sat") = (a <= m * cl)
        /\ (w = "viol") = (a > m * (cl + 1))

(*************************** U2: shapes ************************************)
Fmts == {"float16", "float32", "float64"}
ExpClasses == {"near_kln2", "near_khalfln2", "random", "interior", "history", "tiny", "huge", "edge"}
TrigClasses == {"near_kpio2", "convergent", "switch", "random", "interior", "history", "tiny", "huge", "edge"}
\* float16 is enumerated exhaustively: one shape covers every class inside the domain
Shapes ==
  {[fn |-> "exp", fmt |-> f, cls |-> c] : f \in Fmts \ {"float16"}, c \in ExpClasses}
  \cup {[fn |-> "trig", fmt |-> f, cls |-> c] : f \in Fmts \ {"float16"}, c \in TrigClasses}
  \cup {[fn |-> g, fmt |-> "float16", cls |-> c] : g \in {"exp", "trig"}, c \in {"exhaustive", "huge"}}

Init == \/ What = "consts" /\ st \in {"ln2", "pi", "rn", "div", "logic"}
        \/ What = "shapes" /\ st \in Shapes
Next == UNCHANGED st
Spec == Init /\ [][Next]_st

ConstsOK == /\ (st = "ln2" => Ln2Proved)
            /\ (st = "pi" => PiProved)
            /\ (st = "rn" => RoundsTo)
            /\ (st = "div" => DivOK)
            /\ (st = "logic" => LogicOK /\ AtMostOK)
EmitShape == What = "shapes" => PrintT(<<"S", st>>)
Witness == What = "consts" => PrintT(<<"U1", st>>)
=============================================================================
