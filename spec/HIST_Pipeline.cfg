\* history export: all sequences of exactly MaxLen requests over Requests (set per run)
SPECIFICATION Spec
CONSTANTS
  Requests = {1, 2, 3, 4, 5, 6, 7, 8}
  Seeds = {0}
  MaxLen = 3
  Leak = "none"
INVARIANT Emit
CHECK_DEADLOCK FALSE
