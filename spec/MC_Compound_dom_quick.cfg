\* U1 of C11, quick: domain coverage (-coverage 1) on the tuples of MC_Compound_quick.cfg
SPECIFICATION SpecDom
CONSTANTS
  Fmt = "T3"
  Ops = "multi"
  Stride3 = 61
  StrideF = 251
  Stride4 = 4093
  Off = 0
  XAdd <- TabAdd
  XMul <- TabMul
  XNeg <- TabNeg
  XAbs <- TabAbs
  XLt <- TabLt
  XLe <- TabLe
  XEq <- TabEq
  Val <- TabVal
  COne <- TabCOne
  C32 <- TabC32
  C98 <- TabC98
  C78 <- TabC78
  CQ <- TabCQ
  CP <- TabCP
  CQ13 <- TabCQ13
  CP13 <- TabCP13
  CSplitN <- TabCSplitN
  CSplitC <- TabCSplitC
  CSplitInvN <- TabCSplitInvN
  CXMax <- TabCXMax
  CLargest <- TabCLargest
  CNext <- TabCNext
INVARIANT TypeOK
CHECK_DEADLOCK FALSE
