-------------------------- MODULE Trace_AccuracyC ---------------------------
(***************************************************************************)
(* U3 for C01: every recorded evaluation of the package's own expansion of *)
(* a complex algorithm is judged by AccuracyC.tla.                         *)
(*                                                                         *)
(* Events (one ndjson line each; floats are raw bit patterns as limb       *)
(* lists, nothing is interpreted by the driver):                           *)
(*   fn in ComplexFns: fmt (component format float32 / float64), x, y      *)
(*      (input components), wre, wim (result components; absolute: wre)    *)
(*   fn = "rate":  n, k (BigInt naturals): k of n inputs drawn from one    *)
(*      distribution for one (function, dtype) exceeded the target         *)
(*   fn = "encl":  machinery self-test (harness/props/c01.py selftest):    *)
(*      g (function), w (width), x, y dyadics [[neg, limbs], e], sx, sy,   *)
(*      rre, rim reference dyadics (mpmath, 400 bits): the enclosures must *)
(*      contain the reference and be narrow - never part of a check run    *)
(* Output:  <<"FAIL", id, {clauses}>>  and  <<"NOTE", id, {notes}>>        *)
(* (for a rate event the note is <<"threshold", k>>).                      *)
(***************************************************************************)
EXTENDS AccuracyC, TraceKit
VARIABLE l

Dy(j) == DMk(ZMk(j[1][1], j[1][2]), j[2])
\* self-test of one enclosure against a reference value
EnclFails(X, ref, W, c) ==
  LET slack == DShl(DAbs(ref), -390)
      inside == DLe(DSub(X[1], slack), ref) /\ DLe(ref, DAdd(X[2], slack))
      narrow == IF DIsZero(ref) THEN IIsZeroPt(X) ELSE DLe(IWidth(X), DShl(DAbs(ref), 12 - W))
  IN  Suffix((IF ~IWellFormed(X) THEN {"wellformed"} ELSE {}) \cup (IF ~inside THEN {"miss"} ELSE {})
             \cup (IF ~narrow THEN {"wide"} ELSE {}), c)
EnclV(e) ==
  LET t == TrueVal(e.g, Dy(e.x), Dy(e.y), e.sx, e.sy, e.w)
  IN  [fails |-> EnclFails(t.re, Dy(e.rre), e.w, "re") \cup EnclFails(t.im, Dy(e.rim), e.w, "im"),
       notes |-> IF e.show THEN {<<t.re, t.im>>} ELSE {}]

Verdict(e) ==
  IF e.fn = "rate" THEN [fails |-> RateFailsC(e.n, e.k), notes |-> {}]
  ELSE IF e.fn = "encl" THEN EnclV(e)
  ELSE VerdictC(e.fn, FmtOf(e.fmt), e.x, e.y, e.wre, IF e.fn = "absolute" THEN <<>> ELSE e.wim)

Init == l = 1
Next == /\ l <= Len(Trace)
        /\ LET e == Trace[l]
               v == Verdict(e)
           IN  /\ Report(e, v.fails)
               /\ (IF v.notes = {} THEN TRUE ELSE Note(e, v.notes))
               /\ (IF e.fn = "rate" THEN Note(e, <<"threshold", RateThresholdC(DFromNat(e.n))>>) ELSE TRUE)
        /\ l' = l + 1
Spec == Init /\ [][Next]_l
=============================================================================
