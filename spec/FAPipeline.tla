----------------------------- MODULE FAPipeline -----------------------------
(***************************************************************************)
(* Code generation requests against process-global state.                  *)
(*                                                                         *)
(* A request is (function, signature, target, context parameters); the     *)
(* package answers with text.  The process carries state that outlives a   *)
(* request: the temporary-symbol counter (expr.make_symbol._tmp_counter),  *)
(* the definition registry, the warn-once cache, the per-function call     *)
(* counters that prefix reference names (Context._stack_call_count, which  *)
(* belongs to ONE context), vectorised-function caches, and the hash seed  *)
(* fixed at interpreter start.  C09: the text is a function of the request *)
(* alone.  Leak names which piece of global state reaches the text in the  *)
(* modelled design: "none" is the intended design; the other values are    *)
(* the negative controls MC_Pipeline_leak_*.cfg (TLC must find the two-    *)
(* request counterexample).                                                 *)
(***************************************************************************)
EXTENDS Naturals, Sequences, FiniteSets, TLC

CONSTANTS Requests,   \* request identifiers
          Seeds,      \* hash seeds of the processes
          MaxLen,     \* requests per process
          Leak        \* "none", "tmp", "callcount", "seed", "warned"

VARIABLES seed,       \* hash seed of this process (fixed at start)
          tmp,        \* temporary-symbol counter
          callcount,  \* a call counter kept per process instead of per context (only if leaked)
          warned,     \* warn-once cache
          hist,       \* requests issued so far
          log         \* <<request, text digest>> per request
vars == <<seed, tmp, callcount, warned, hist, log>>

\* what the text depends on: the request and, in a leaky design, some global state
Text(r) == <<r, CASE Leak = "tmp" -> tmp [] Leak = "callcount" -> callcount [] Leak = "seed" -> seed
                  [] Leak = "warned" -> IF r \in warned THEN 1 ELSE 0 [] OTHER -> 0>>

Init == /\ seed \in Seeds /\ tmp = 0 /\ callcount = 0 /\ warned = {} /\ hist = <<>> /\ log = <<>>
Generate(r) ==
  /\ Len(hist) < MaxLen
  /\ log' = Append(log, <<r, Text(r)>>)
  /\ hist' = Append(hist, r)
  /\ tmp' = tmp + 1              \* tracing creates temporaries
  /\ callcount' = callcount + 1  \* expansions call definitions
  /\ warned' = warned \cup {r}
  /\ UNCHANGED seed
Next == \E r \in Requests : Generate(r)
Spec == Init /\ [][Next]_vars

\* simulation: one random request per step
SimNext == \E r \in {RandomElement(Requests)} : Generate(r)
SimSpec == Init /\ [][SimNext]_vars

\* C09 within one process (across processes: Trace_Pipeline merges the logs)
FunctionalDependency == \A i, j \in 1..Len(log) : log[i][1] = log[j][1] => log[i][2] = log[j][2]
\* the digest of a request does not depend on the seed either: checked across behaviours by
\* comparing with the digest a fresh process with another seed gives
SeedIndependent == \A i \in 1..Len(log) : log[i][2] = <<log[i][1], 0>>

Emit == Len(hist) = MaxLen => PrintT(<<"H", hist>>)
=============================================================================
