\* U2 of C16, quick: degree subsets for the O(degree^2) operations and laurent
SPECIFICATION Spec
CONSTANT Tier = "quick"
INVARIANT Emit
CHECK_DEADLOCK FALSE
