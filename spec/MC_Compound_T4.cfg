\* U1 of C11, thorough: T4 = [p = 4, emax = 3, w = 7]; every 31st triple (67651 of 2097152) for sum3, muladd, every 127th (16513) for the 32 fma variants, every 65521st quadruple (4097) for sum4, dot2
SPECIFICATION Spec
CONSTANTS
  Fmt = "T4"
  Ops = "multi"
  Stride3 = 31
  StrideF = 127
  Stride4 = 65521
  Off = 0
  XAdd <- TabAdd
  XMul <- TabMul
  XNeg <- TabNeg
  XAbs <- TabAbs
  XLt <- TabLt
  XLe <- TabLe
  XEq <- TabEq
  Val <- TabVal
  COne <- TabCOne
  C32 <- TabC32
  C98 <- TabC98
  C78 <- TabC78
  CQ <- TabCQ
  CP <- TabCP
  CQ13 <- TabCQ13
  CP13 <- TabCP13
  CSplitN <- TabCSplitN
  CSplitC <- TabCSplitC
  CSplitInvN <- TabCSplitInvN
  CXMax <- TabCXMax
  CLargest <- TabCLargest
  CNext <- TabCNext
INVARIANT Holds
CHECK_DEADLOCK FALSE
