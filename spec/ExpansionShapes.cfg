\* U2 of C12, thorough: every list shape (length 1..6 x pair relations x zero positions x sign pattern x order x cancellation)
SPECIFICATION Spec
CONSTANTS
  Tier = "thorough"
  Stride = 1
INVARIANT Emit
CHECK_DEADLOCK FALSE
