--------------------------- MODULE AccuracyShapes ---------------------------
(***************************************************************************)
(* U2 generator for C02: TLC enumerates the boundary-directed input SHAPES *)
(* of the real algorithms and concretises each for float32 and float64     *)
(* with IEEE.tla; the driver (harness/props/c02.py) evaluates the          *)
(* generated implementations on the printed bit patterns.                  *)
(*                                                                         *)
(* Unary shapes  <<anchor, k, sign>>: the pattern k lattice steps from an  *)
(* anchor magnitude (k in Ks, |k| <= 64), both signs.  Anchors are the     *)
(* switch points and edges named in functional_algorithms/algorithms.py    *)
(* (real_asin, real_acos, real_asinh, real_acosh, real_square):            *)
(*   zero, minsub, sub_half (half the smallest normal), minnormal,         *)
(*   sqrt_half_minsub / sqrt_minsub / sqrt_minnormal (x*x underflows to 0, *)
(*   to the smallest subnormal, leaves the normal range),                  *)
(*   eps_lo / eps_mid / eps_hi = 2^(-p/2-1), 2^(-p/2), 2^(-p/2+1) (where   *)
(*   asin x, asinh x stop being x and x*x stops being absorbed by 1),      *)
(*   quarter, half, sqrt_half, one (|x| = 1 -+ k ulp: the edge of the      *)
(*   domain of asin/acos/acosh), onehalf (1.5), two,                       *)
(*   sqrt_largest_8 = sqrt(largest)/8, sqrt_largest (asinh's switch to     *)
(*   log 2 + log x; x*x overflows), largest_half (acosh's switch),         *)
(*   largest, inf.                                                         *)
(* The table Relevant says for which functions an anchor is printed.       *)
(*                                                                         *)
(* Hypot shapes (pairs):                                                   *)
(*   equal    |x| = |y| = anchor + k           (the mx == mn branch)       *)
(*   ratio    y = x / 2^j + k ulp, j around 1, p/2 (sqrt(1 + r) == 1       *)
(*            switch), p, 2p                   (the underflow correction)  *)
(*   sub      pairs of subnormal / smallest normal magnitudes              *)
(*   ovf      x = largest - i, y = RN(sqrt(T^2 - x^2)) + m with T the      *)
(*            overflow threshold (largest + ulp/2): the overflow edge      *)
(*   special  all pairs from {+-0, minsub, 1, largest, +-inf}              *)
(* each with sign / order variants.                                        *)
(* Constants: Ks (offsets), KsHypot (offsets for the pair shapes).         *)
(***************************************************************************)
EXTENDS IEEE, TLC, FiniteSets
CONSTANTS Ks, KsHypot
VARIABLE sh

Fmts == <<F32, F64>>

(*************************** anchors ***************************************)
\* RN(sqrt(d)) for a dyadic d > 0 (same construction as IEEE!FSqrt)
SqrtRN(f, d) ==
  LET m == d[1][2]
      e == d[2]
      k0 == Max(0, 2 * f.p + 6 - NBitLen(m))
      k == IF (e - k0) % 2 = 0 THEN k0 ELSE k0 + 1
      a == NShl(m, k)
      r == NSqrt(a)
      mm == NAdd(NShl(r, 1), IF NMul(r, r) = a THEN <<>> ELSE NOne)
  IN  RN(f, DMk(ZMk(0, mm), (e - k) \div 2 - 1))
Pow2Bits(f, e) == NShl(NFromInt(e + f.emax), f.p - 1)           \* pattern of 2^e, EMin <= e <= emax
D2(e) == <<ZFromInt(1), e>>
Anchor(f, a) ==
  CASE a = "zero" -> <<>>
    [] a = "minsub" -> NOne
    [] a = "sub_half" -> NPow2(f.p - 2)
    [] a = "minnormal" -> MinNormalMag(f)
    [] a = "sqrt_half_minsub" -> SqrtRN(f, D2(QMin(f) - 1))
    [] a = "sqrt_minsub" -> SqrtRN(f, D2(QMin(f)))
    [] a = "sqrt_minnormal" -> SqrtRN(f, D2(EMin(f)))
    [] a = "eps_lo" -> Pow2Bits(f, -(f.p \div 2) - 1)
    [] a = "eps_mid" -> Pow2Bits(f, -(f.p \div 2))
    [] a = "eps_hi" -> Pow2Bits(f, -(f.p \div 2) + 1)
    [] a = "quarter" -> Pow2Bits(f, -2)
    [] a = "half" -> Pow2Bits(f, -1)
    [] a = "sqrt_half" -> SqrtRN(f, D2(-1))
    [] a = "one" -> Pow2Bits(f, 0)
    [] a = "onehalf" -> NAdd(Pow2Bits(f, 0), NPow2(f.p - 2))
    [] a = "two" -> Pow2Bits(f, 1)
    [] a = "sqrt_largest_8" -> NSub(FSqrt(f, LargestMag(f)), NShl(NFromInt(3), f.p - 1))
    [] a = "sqrt_largest" -> FSqrt(f, LargestMag(f))
    [] a = "largest_half" -> NSub(LargestMag(f), NPow2(f.p - 1))
    [] a = "largest_over_sqrt2" -> SqrtRN(f, DShl(DMul(Val(f, LargestMag(f)), Val(f, LargestMag(f))), -1))
    [] a = "largest" -> LargestMag(f)
    [] a = "inf" -> InfMag(f)
Anchors == {"zero", "minsub", "sub_half", "minnormal", "sqrt_half_minsub", "sqrt_minsub", "sqrt_minnormal",
            "eps_lo", "eps_mid", "eps_hi", "quarter", "half", "sqrt_half", "one", "onehalf", "two",
            "sqrt_largest_8", "sqrt_largest", "largest_half", "largest", "inf"}
Relevant(a) ==
  (IF a \in {"zero", "minsub", "sub_half", "minnormal", "eps_lo", "eps_mid", "eps_hi", "quarter", "half",
             "sqrt_half", "one", "two", "largest", "inf"} THEN {"asin", "acos"} ELSE {})
  \cup (IF a \in {"zero", "minsub", "sub_half", "minnormal", "eps_lo", "eps_mid", "eps_hi", "half", "one", "two",
                  "sqrt_largest_8", "sqrt_largest", "largest_half", "largest", "inf"} THEN {"asinh"} ELSE {})
  \cup (IF a \in {"zero", "half", "one", "onehalf", "two", "sqrt_largest_8", "sqrt_largest", "largest_half",
                  "largest", "inf"} THEN {"acosh"} ELSE {})
  \cup (IF a \in {"zero", "minsub", "minnormal", "one", "largest", "inf"} THEN {"absolute"} ELSE {})
  \cup (IF a \in {"zero", "minsub", "sqrt_half_minsub", "sqrt_minsub", "sqrt_minnormal", "eps_mid", "one",
                  "sqrt_largest", "largest", "inf"} THEN {"square"} ELSE {})

\* anchor + k as a magnitude, <<-1>> (not a natural) when it leaves [0, InfMag]
Off(f, mag, k) ==
  IF k < 0 THEN (IF NCmp(mag, NFromInt(-k)) < 0 THEN <<-1>> ELSE NSub(mag, NFromInt(-k)))
  ELSE LET m == NAdd(mag, NFromInt(k)) IN IF NCmp(m, InfMag(f)) > 0 THEN <<-1>> ELSE m
Bad == <<-1>>
Signed(f, s, mag) == IF mag = Bad THEN Bad ELSE WithSign(f, s, mag)

(*************************** shapes ****************************************)
UnaryShapes == {<<"u", a, k, s>> : a \in Anchors, k \in Ks, s \in {0, 1}}
EqAnchors == {"minsub", "sub_half", "minnormal", "one", "sqrt_largest", "largest_half", "largest_over_sqrt2", "largest"}
RatioAnchors == {"minnormal", "one", "sqrt_largest", "largest_half", "largest"}
Js(f) == {1, 2, f.p \div 2 - 1, f.p \div 2, f.p \div 2 + 1, f.p - 1, f.p, f.p + 1, f.p + 2, 2 * f.p}
JIdx == 1..10          \* index into the sorted Js
JOf(f, i) == CHOOSE j \in Js(f) : Cardinality({q \in Js(f) : q < j}) = i - 1
SubMags(f) == <<NOne, NFromInt(2), NFromInt(3), NPow2(f.p - 2), NSub(NPow2(f.p - 1), NOne), NPow2(f.p - 1),
                NAdd(NPow2(f.p - 1), NOne)>>
Specials(f) == <<PosZero(f), NegZero(f), NOne, Pow2Bits(f, 0), LargestMag(f), PosInf(f), NegInf(f),
                 WithSign(f, 1, LargestMag(f))>>
HypotShapes ==
  {<<"equal", a, k, sx, sy>> : a \in EqAnchors, k \in KsHypot, sx \in {0, 1}, sy \in {0, 1}}
  \cup {<<"ratio", a, i, k, sx, sw>> : a \in RatioAnchors, i \in JIdx, k \in KsHypot, sx \in {0, 1}, sw \in {0, 1}}
  \cup {<<"sub", i, j, sx, sy>> : i \in 1..7, j \in 1..7, sx \in {0, 1}, sy \in {0, 1}}
  \cup {<<"ovf", i, m, sw>> : i \in 0..8, m \in -4..4, sw \in {0, 1}}
  \cup {<<"special", i, j>> : i \in 1..8, j \in 1..8}

\* concretisation of a hypot shape: <<x, y>> patterns (Bad when it leaves the lattice)
Swap(sw, p) == IF sw = 1 THEN <<p[2], p[1]>> ELSE p
HypotBits(f, h) ==
  CASE h[1] = "equal" ->
         LET m == Off(f, Anchor(f, h[2]), h[3]) IN <<Signed(f, h[4], m), Signed(f, h[5], m)>>
    [] h[1] = "ratio" ->
         LET x == Anchor(f, h[2])
             j == JOf(f, h[3])
             down == NShl(NFromInt(j), f.p - 1)
             y0 == IF NCmp(x, down) <= 0 THEN Bad ELSE NSub(x, down)
             y == IF y0 = Bad THEN Bad ELSE Off(f, y0, h[4])
         IN  Swap(h[6], <<Signed(f, h[5], x), Signed(f, 0, y)>>)
    [] h[1] = "sub" -> <<Signed(f, h[4], SubMags(f)[h[2]]), Signed(f, h[5], SubMags(f)[h[3]])>>
    [] h[1] = "ovf" ->
         LET x == NSub(LargestMag(f), NFromInt(h[2]))
             vx == Val(f, x)
             T == DAdd(Val(f, LargestMag(f)), <<ZFromInt(1), QMax(f) - 1>>)       \* largest + ulp/2
             y == SqrtRN(f, DSub(DMul(T, T), DMul(vx, vx)))
         IN  Swap(h[4], <<x, Off(f, y, h[3])>>)
    [] h[1] = "special" -> <<Specials(f)[h[2]], Specials(f)[h[3]]>>

Init == sh \in UnaryShapes \cup HypotShapes
Next == UNCHANGED sh
Spec == Init /\ [][Next]_sh

Emit ==
  IF sh[1] = "u"
  THEN LET b32 == Signed(F32, sh[4], Off(F32, Anchor(F32, sh[2]), sh[3]))
           b64 == Signed(F64, sh[4], Off(F64, Anchor(F64, sh[2]), sh[3]))
       IN  PrintT(<<"H", sh, Relevant(sh[2]), b32, b64>>)
  ELSE PrintT(<<"P", sh, HypotBits(F32, sh), HypotBits(F64, sh)>>)

\* sanity of the anchors themselves (independent literals): sqrt(largest) of float32 is the
\* constant 1.8446743e19 = 0x5F7FFFFF printed in the generated asinh; 1.5 = 0x3FC00000
AnchorsSane ==
  /\ Anchor(F32, "sqrt_largest") = <<32767, 16127, 1>>       \* 0x5F7FFFFF
  /\ Anchor(F32, "onehalf") = <<0, 32640>>                   \* 0x3FC00000
  /\ Anchor(F32, "one") = <<0, 32512>>                       \* 0x3F800000
  /\ Anchor(F32, "largest_half") = <<32767, 32255, 1>>       \* 0x7EFFFFFF
  /\ Anchor(F32, "sqrt_half") = <<1267, 32362>>              \* 0x3F3504F3
KsFull == -64..64
KsHypotFull == -8..8
KsQuick == {-64, -33, -16, -8, -4, -3, -2, -1, 0, 1, 2, 3, 4, 8, 16, 33, 64}
KsHypotQuick == -2..2
=============================================================================
