\* U1 of C12 (thorough): toy format T4 = [p=4, emax=3, w=7] (112 finite patterns); all lists of 1..3 finite patterns, first item non-negative
SPECIFICATION Spec
CONSTANTS
  Fmt <- T4
  MaxLen = 3
  FirstMax = 55
INVARIANTS TwoSumExact IdealIsSafe FastIsSafe Functional ValueKept TwoPasses ClausesHold Witnesses
CHECK_DEADLOCK FALSE
