\* U2 of C10, thorough: every exponent gap -(p+2)..(p+2), every pattern pair, all sign pairs
SPECIFICATION Spec
CONSTANT Tier = "thorough"
INVARIANT Emit
CHECK_DEADLOCK FALSE
