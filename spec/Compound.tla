------------------------------ MODULE Compound ------------------------------
(***************************************************************************)
(* C11 - emulated compound operations meet their documented error bounds.  *)
(*                                                                         *)
(* Floats are raw bit patterns (BigInt naturals) of an IEEE.tla format f.  *)
(* Part 1 gives the property clauses (one operator per operation, each     *)
(* guarded by the documented domain, computed here from the inputs);       *)
(* part 2 is a total (inf/nan aware) arithmetic on patterns and part 3 the *)
(* transcriptions of the algorithms of functional_algorithms used by the   *)
(* design-level model check MC_Compound (U1).  The trace specification     *)
(* Trace_Compound (U3) uses part 1 only.                                   *)
(*                                                                         *)
(* Clauses (statement of C11; ULP distances are lattice distances Dist     *)
(* between the result and RN(exact), the correctly rounded exact value):   *)
(*  next       x normal, its neighbour n in the requested direction normal *)
(*             => result = n                                               *)
(*  pow2       2^PowLo(f) <= |x| < 2^PowHi(f)                              *)
(*             => result <=> significand of x is a power of two            *)
(*  sum3_finite / sum3_exact / sum3_1ulp                                   *)
(*             |x|,|y|,|z| < largest/4 => s, e, t finite, s+e+t = x+y+z    *)
(*             exactly, Dist(FAdd(s, FAdd(e, t)), RN(x+y+z)) <= 1          *)
(*  sum4_1ulp  |x|,|y|,|z|,|w| < largest/4 => Dist(r, RN(x+y+z+w)) <= 1    *)
(*  muladd_2ulp  4x^2 < largest, 4y^2 < largest, |z| < largest/2           *)
(*             => Dist(r, RN(x*y+z)) <= 2                                  *)
(*  dot2_3ulp  4v^2 < largest for v = x, y, z, w                           *)
(*             => Dist(r, RN(x*y+z*w)) <= 3                                *)
(*  fma_1ulp   RN(x*y) and RN(x*y+z) finite => Dist(r, RN(x*y+z)) <= 1     *)
(* A non-finite result inside the domain fails the clause.                 *)
(*                                                                         *)
(* Leniencies (each is written into the evidence by the driver):           *)
(*  L1 |v| < sqrt(largest)/2 is decided as 4v^2 < largest (exact, no       *)
(*     rounded square root).                                               *)
(*  L2 is_power_of_two on float32: the docstring window starts at 2^-129   *)
(*     (the repo's test uses 2^-149); the clause uses the docstring, a     *)
(*     wrong answer in [2^-149, 2^-129) is only noted.                     *)
(*  L3 fma variants with fix_overflow = FALSE: the docstring documents     *)
(*     "overflow occured in fma arithmetics (the return value is nan), use *)
(*     fix_overflow"; nothing is demanded of such a variant when the       *)
(*     result is not finite and one of |x*y|, |z|, |x*y+z| is within the   *)
(*     two top binades (>= 2^(emax-1)), where Dekker's product or 2Sum can *)
(*     overflow internally.                                                *)
(*  L4 the sign of a zero result is free (Ord(+0) = Ord(-0)).              *)
(*  A failure of fma_1ulp with |x*y| >= 2^emax whose result is what the     *)
(*  documented fallback gives (fl(x*y) + z rounded once, within 1 ulp) is  *)
(*  named fma_1ulp_prodtop, otherwise one with |x*y+z| >= 2^emax whose     *)
(*  result is not finite (an internal overflow: inf, or NaN from inf-inf)  *)
(*  is named fma_1ulp_restop, so that these known behaviours are keyed     *)
(*  from every other failure of the clause - including other failures in   *)
(*  the same corners.                                                      *)
(***************************************************************************)
EXTENDS IEEE

(*************************** part 1: clauses *******************************)
D2(k) == <<ZFromInt(1), k>>                          \* 2^k as a dyadic
LargestD(f) == <<<<0, NSub(NPow2(f.p), NOne)>>, QMax(f)>>
AbsLt(f, x, d) == DLt(DAbs(Val(f, x)), d)            \* |x| < d, x finite
Sq4Lt(f, x) == LET v == Val(f, x) IN DLt(DShl(DMul(v, v), 2), LargestD(f))   \* 4 x^2 < largest

\* Dist(r, RN(d)) <= k, r finite
\* (rn = RN(f, d) is passed separately where a caller has it already; r = rn is decided first: cheap)
WithinR(f, r, rn, k) == r = rn \/ (IsFinite(f, r) /\ NCmp(Dist(f, r, rn), NFromInt(k)) <= 0)
Within(f, r, d, k) == WithinR(f, r, RN(f, d), k)
\* the lattice distance as a small integer capped at 9 (for notes), 99 if r is not finite
DistCapR(f, r, rn) == IF r = rn THEN 0 ELSE IF ~IsFinite(f, r) THEN 99
                      ELSE LET n == Dist(f, r, rn) IN IF NCmp(n, <<9>>) >= 0 THEN 9 ELSE NToInt(n)
DistCap(f, r, d) == DistCapR(f, r, RN(f, d))

AllFinite(f, s) == \A i \in 1..Len(s) : IsFinite(f, s[i])

(* next *)
NextDomain(f, x, up) == /\ IsNormal(f, x)
                        /\ IsNormal(f, IF up THEN NextUp(f, x) ELSE NextDown(f, x))
NextFails(f, x, up, r) ==
  IF NextDomain(f, x, up) /\ r # (IF up THEN NextUp(f, x) ELSE NextDown(f, x)) THEN {"next"} ELSE {}
\* the same with dom = NextDomain(f, x, up) and nb = the neighbour evaluated by the caller (once per x)
NextFailsC(dom, nb, r) == IF dom /\ r # nb THEN {"next"} ELSE {}

(* is_power_of_two: documented exponent window, by format *)
PowHi(f) == f.emax + 2 - f.p                         \* 6, 105, 972 for float16/32/64
PowLo(f) == IF f = F32 THEN -129 ELSE QMin(f)        \* -24, -129 (docstring), -1074
SigIsPow2(f, x) == IsFinite(f, x) /\ NIsPow2(Sig(f, x))
InWindow(f, x, lo, hi) == /\ IsFinite(f, x) /\ ~IsZero(f, x)
                          /\ DLe(D2(lo), DAbs(Val(f, x))) /\ AbsLt(f, x, D2(hi))
Pow2Domain(f, x) == InWindow(f, x, PowLo(f), PowHi(f))
\* r: the BOOLEAN the code returned; inv: the invert argument
Pow2Fails(f, x, inv, r) ==
  IF Pow2Domain(f, x) /\ r # (SigIsPow2(f, x) # inv) THEN {"pow2"} ELSE {}
\* the same with dom = Pow2Domain(f, x) and isp = SigIsPow2(f, x) evaluated by the caller (once per x)
Pow2FailsC(dom, isp, inv, r) == IF dom /\ r # (isp # inv) THEN {"pow2"} ELSE {}
\* L2: below the documented window of float32 but inside the window the repository's test uses
Pow2BelowDoc(f, x) == f = F32 /\ ~Pow2Domain(f, x) /\ InWindow(f, x, QMin(f), PowHi(f))

(* sums *)
QuarterDomain(f, s) == AllFinite(f, s) /\ \A i \in 1..Len(s) : AbsLt(f, s[i], DShl(LargestD(f), -2))
Sum3Fails(f, x, y, z, s, e, t) ==
  IF ~QuarterDomain(f, <<x, y, z>>) THEN {}
  ELSE IF ~AllFinite(f, <<s, e, t>>) THEN {"sum3_finite"}
  ELSE LET ex == DSum(<<Val(f, x), Val(f, y), Val(f, z)>>)
       IN  (IF DEq(DSum(<<Val(f, s), Val(f, e), Val(f, t)>>), ex) THEN {} ELSE {"sum3_exact"})
           \cup (IF Within(f, FAdd(f, s, FAdd(f, e, t)), ex, 1) THEN {} ELSE {"sum3_1ulp"})
Sum4Exact(f, x, y, z, w) == DSum(<<Val(f, x), Val(f, y), Val(f, z), Val(f, w)>>)
Sum4Fails(f, x, y, z, w, r) ==
  IF QuarterDomain(f, <<x, y, z, w>>) /\ ~Within(f, r, Sum4Exact(f, x, y, z, w), 1) THEN {"sum4_1ulp"} ELSE {}

(* products *)
MulAddDomain(f, x, y, z) == /\ AllFinite(f, <<x, y, z>>) /\ Sq4Lt(f, x) /\ Sq4Lt(f, y)
                            /\ AbsLt(f, z, DShl(LargestD(f), -1))
MulAddFails(f, x, y, z, r) ==
  IF MulAddDomain(f, x, y, z) /\ ~Within(f, r, FMAExact(f, x, y, z), 2) THEN {"muladd_2ulp"} ELSE {}
Dot2Exact(f, x, y, z, w) == DAdd(DMul(Val(f, x), Val(f, y)), DMul(Val(f, z), Val(f, w)))
Dot2Domain(f, x, y, z, w) == AllFinite(f, <<x, y, z, w>>) /\ \A v \in {x, y, z, w} : Sq4Lt(f, v)
Dot2Fails(f, x, y, z, w, r) ==
  IF Dot2Domain(f, x, y, z, w) /\ ~Within(f, r, Dot2Exact(f, x, y, z, w), 3) THEN {"dot2_3ulp"} ELSE {}

(* fused multiply-add *)
FmaDomain(f, x, y, z) == /\ AllFinite(f, <<x, y, z>>)
                         /\ IsFinite(f, RN(f, DMul(Val(f, x), Val(f, y))))
                         /\ IsFinite(f, RN(f, FMAExact(f, x, y, z)))
TopD(f, k) == D2(f.emax - k)
ProdTop(f, x, y) == DLe(TopD(f, 0), DAbs(DMul(Val(f, x), Val(f, y))))
ResTop(f, x, y, z) == DLe(TopD(f, 0), DAbs(FMAExact(f, x, y, z)))
NearOverflow(f, x, y, z) ==                           \* L3
  \E d \in {DMul(Val(f, x), Val(f, y)), Val(f, z), FMAExact(f, x, y, z)} : DLe(TopD(f, 1), DAbs(d))
\* The two top-of-range corners are keyed apart only when the result shows the documented fallback itself
\* (Dekker's product falls back to (fl(x*y), 0) when the product of the high parts overflows): the result is
\* what fl(x*y) + z gives when rounded once - within 1 ulp of it if finite, the same infinity otherwise.
\* Any other result in these corners (a NaN, an infinity where fl(x*y) + z is finite, ...) is a plain fma_1ulp.
FallbackSum(f, x, y, z) == RN(f, DAdd(Val(f, RN(f, DMul(Val(f, x), Val(f, y)))), Val(f, z)))
FallbackLike(f, x, y, z, r) == LET s == FallbackSum(f, x, y, z)
                               IN  IF IsFinite(f, s) THEN WithinR(f, r, s, 1) ELSE r = s
\* ... and in the result corner (|x*y| < 2^emax <= |x*y + z|) the known behaviour is an overflow inside the
\* algorithm (fl(x*y) + z, or an intermediate of the compensated sum, exceeds the range): the result is not finite
\* (an infinity, or the NaN of inf - inf); a wrong FINITE result there is a plain fma_1ulp
FallbackInf(f, x, y, z, r) == ~IsFinite(f, r)
\* fo: the fix_overflow option of the variant that produced r; dom = FmaDomain(f, x, y, z) and
\* rn = RN(f, FMAExact(f, x, y, z)) are passed in so that a caller judging many variants on the
\* same operands evaluates them once
FmaFailsC(f, x, y, z, dom, rn, r, fo) ==
  IF ~dom \/ WithinR(f, r, rn, 1) THEN {}
  ELSE IF ~fo /\ ~IsFinite(f, r) /\ NearOverflow(f, x, y, z) THEN {}
  ELSE IF ProdTop(f, x, y) /\ FallbackLike(f, x, y, z, r) THEN {"fma_1ulp_prodtop"}
  ELSE IF ResTop(f, x, y, z) /\ FallbackInf(f, x, y, z, r)
       THEN \* keyed apart: the once-rounded sum fl(x*y) + z itself overflows (the documented fallback), or only an
            \* intermediate of the compensated sum does (fl(x*y) + z is finite)
            (IF ~IsFinite(f, FallbackSum(f, x, y, z)) THEN {"fma_1ulp_restop"} ELSE {"fma_1ulp_restop_intermediate"})
       ELSE {"fma_1ulp"}
FmaFails(f, x, y, z, r, fo) ==
  FmaFailsC(f, x, y, z, FmaDomain(f, x, y, z), RN(f, FMAExact(f, x, y, z)), r, fo)

(* classification of an exact result d (statistics for the evidence, never verdicts) *)
\* tie: d lies exactly half-way between two neighbouring numbers of the format
IsTie(f, d) ==
  ~DIsZero(d) /\ LET q == RQuantum(f, d)
                     k == q - d[2]
                 IN  k >= 1 /\ NLow(d[1][2], k) = NPow2(k - 1)
\* near tie: the discarded tail is within 2^-(p-2) (relative to half a quantum) of a tie, not a tie
NearTie(f, d) ==
  ~DIsZero(d) /\ LET q == RQuantum(f, d)
                     k == q - d[2]
                 IN  k >= f.p /\ LET top == NShr(NLow(d[1][2], k), k - f.p + 1)
                                 IN  /\ NLow(d[1][2], k) # NPow2(k - 1)
                                     /\ top \in {NPow2(f.p - 2), NSub(NPow2(f.p - 2), NOne)}
\* cancellation: the exact result is at least p binades below the largest term
Cancels(f, d, terms) ==
  ~DIsZero(d) /\ \E i \in 1..Len(terms) : ~DIsZero(terms[i]) /\ DLead(terms[i]) - DLead(d) >= f.p
ResClass(f, d, rn, terms) ==
      (IF DIsZero(d) THEN {"zero"} ELSE {})
      \cup (IF IsTie(f, d) THEN {"tie"} ELSE {})
      \cup (IF NearTie(f, d) THEN {"neartie"} ELSE {})
      \cup (IF Cancels(f, d, terms) THEN {"cancel"} ELSE {})
      \cup (IF IsSubnormal(f, rn) THEN {"subres"} ELSE {})
      \cup (IF ~IsZero(f, rn) /\ IsFinite(f, rn) /\ NIsPow2(Sig(f, rn)) THEN {"pow2res"} ELSE {})
      \cup (IF DIsZero(d) \/ (IsFinite(f, rn) /\ DEq(Val(f, rn), d)) THEN {"exact"} ELSE {})

(*************************** part 2: total arithmetic **********************)
QNaN(f) == NAdd(InfMag(f), NPow2(f.p - 2))
SInf(f, s) == WithSign(f, s, InfMag(f))
SZero(f, s) == WithSign(f, s, <<>>)
XorSign(f, x, y) == (SignBit(f, x) + SignBit(f, y)) % 2

XAdd0(f, x, y) ==
  IF IsNaN(f, x) \/ IsNaN(f, y) THEN QNaN(f)
  ELSE IF IsInf(f, x) THEN (IF IsInf(f, y) /\ SignBit(f, x) # SignBit(f, y) THEN QNaN(f) ELSE x)
  ELSE IF IsInf(f, y) THEN y
  ELSE FAdd(f, x, y)
XMul0(f, x, y) ==
  IF IsNaN(f, x) \/ IsNaN(f, y) THEN QNaN(f)
  ELSE IF IsInf(f, x) \/ IsInf(f, y)
       THEN (IF IsZero(f, x) \/ IsZero(f, y) THEN QNaN(f) ELSE SInf(f, XorSign(f, x, y)))
  ELSE FMul(f, x, y)
\* x / y for finite non-zero y
XDiv0(f, x, y) ==
  IF IsNaN(f, x) THEN QNaN(f)
  ELSE IF IsInf(f, x) THEN SInf(f, XorSign(f, x, y))
  ELSE FDiv(f, x, y)
XNeg0(f, x) == FNeg(f, x)
XAbs0(f, x) == Mag(f, x)
NoNaN(f, x, y) == ~IsNaN(f, x) /\ ~IsNaN(f, y)
XLt0(f, x, y) == NoNaN(f, x, y) /\ ZLt(Ord(f, x), Ord(f, y))
XLe0(f, x, y) == NoNaN(f, x, y) /\ ZLe(Ord(f, x), Ord(f, y))
XEq0(f, x, y) == NoNaN(f, x, y) /\ Ord(f, x) = Ord(f, y)
\* MC_Compound replaces the following operators by lookups in tables computed from the ...0
\* definitions above over its toy format (pure memoisation; see MC_CompoundTab)
XAdd(f, x, y) == XAdd0(f, x, y)
XMul(f, x, y) == XMul0(f, x, y)
XDiv(f, x, y) == XDiv0(f, x, y)
XNeg(f, x) == XNeg0(f, x)
XAbs(f, x) == XAbs0(f, x)
XLt(f, x, y) == XLt0(f, x, y)
XLe(f, x, y) == XLe0(f, x, y)
XEq(f, x, y) == XEq0(f, x, y)
XSub(f, x, y) == XAdd(f, x, XNeg(f, y))
XNe(f, x, y) == ~XEq(f, x, y)
XGt(f, x, y) == XLt(f, y, x)
Zero == <<>>
Sel(c, a, b) == IF c THEN a ELSE b

(* constants of the algorithms, rounded into the format like dtype(value) does *)
K(f, d) == RN(f, d)
COne(f) == K(f, D2(0))
C32(f) == K(f, <<ZFromInt(3), -1>>)
C98(f) == K(f, <<ZFromInt(9), -3>>)
C78(f) == K(f, <<ZFromInt(7), -3>>)
CQ(f) == K(f, D2(f.p - 1))
CP(f) == K(f, DAdd(D2(f.p - 1), D2(0)))
CQ13(f) == K(f, D2(f.p - 2))
CP13(f) == K(f, DAdd(D2(f.p - 2), D2(0)))
SplitS(f) == (f.p + 1) \div 2
CSplitN(f) == K(f, D2(SplitS(f)))
CSplitC(f) == K(f, DAdd(D2(SplitS(f)), D2(0)))
CSplitInvN(f) == K(f, D2(-SplitS(f)))
\* 2^(maxexp - p//2) * (2^(p//2) - 1), maxexp = emax + 1
CXMax(f) == K(f, DSub(D2(f.emax + 1), D2(f.emax + 1 - (f.p \div 2))))
CLargest(f) == LargestMag(f)
CNext(f) == K(f, DSub(D2(0), D2(-f.p)))              \* 1 - 2^-p

(*************************** part 3: transcriptions ************************)
\* floating_point_algorithms.next
TNext(f, x, up) ==
  LET c == CNext(f)
  IN  IF up THEN Sel(XGt(f, x, Zero), XDiv(f, x, c), XMul(f, x, c))
      ELSE Sel(XLt(f, x, Zero), XDiv(f, x, c), XMul(f, x, c))

\* floating_point_algorithms.is_power_of_two (invert = FALSE)
TIsPow2(f, x, Q, P) == XEq(f, XSub(f, XMul(f, P, x), XMul(f, Q, x)), x)
TIsPow2Default(f, x) == TIsPow2(f, x, CQ(f), CP(f))
\* is_one_or_three_times_power_of_two
TIs13Pow2(f, x) == XEq(f, XSub(f, XMul(f, CP13(f), x), XMul(f, CQ13(f), x)), x)

\* add_2sum -> <<s, t>>
T2Sum(f, x, y, fast, fixov) ==
  LET s == XAdd(f, x, y)
      z == XSub(f, s, x)
      t == IF fast THEN XSub(f, y, z)
           ELSE XAdd(f, XSub(f, x, XSub(f, s, z)), XSub(f, y, z))
  IN  <<s, IF fixov /\ XGt(f, XAbs(f, z), CLargest(f)) THEN Zero ELSE t>>

\* split_veltkamp(x, C, scale) -> <<xh, xl>>; the code's default for C = None is N = CSplitN(f)
TSplit(f, x, cc, scale) ==
  LET ax == XAbs(f, x)
      small == XLt(f, ax, COne(f))
      xn == IF scale THEN Sel(small, x, XMul(f, x, CSplitInvN(f))) ELSE x
      g == XMul(f, cc, xn)
      d == XSub(f, g, xn)
      gd == XSub(f, g, d)
      xh == IF scale
            THEN Sel(XGt(f, ax, CXMax(f)), Sel(XLt(f, x, Zero), XNeg(f, CXMax(f)), CXMax(f)),
                     Sel(small, gd, XMul(f, gd, CSplitN(f))))
            ELSE gd
  IN  <<xh, XSub(f, x, xh)>>

\* mul_dekker(x, y, C, scale, fix_overflow) with assume_fma = False -> <<xyh, xyl>>
TDekker(f, x, y, C, scale, fixov) ==
  LET sx == TSplit(f, x, C, scale)
      sy == TSplit(f, y, C, scale)
      xh == sx[1]  xl == sx[2]  yh == sy[1]  yl == sy[2]
      xyh == XMul(f, x, y)
      t1 == XAdd(f, XNeg(f, xyh), XMul(f, xh, yh))
      t2 == XAdd(f, t1, XMul(f, xh, yl))
      t3 == XAdd(f, t2, XMul(f, xl, yh))
      xyl == XAdd(f, t3, XMul(f, xl, yl))
      ovf == fixov /\ XGt(f, XAbs(f, XMul(f, xh, yh)), CLargest(f))
  IN  IF ovf THEN <<XMul(f, x, y), Zero>> ELSE <<xyh, xyl>>

\* the final selection shared by add_3sum (strict = TRUE: g < 0) and add_dw / mul_add (g <= 0)
TPick(f, notpow2, first, zh, s1, s2, t, g, strict) ==
  Sel(notpow2, first,
      Sel(XEq(f, s2, zh), zh,
          Sel(XEq(f, t, Zero), s1,
              Sel(IF strict THEN XLt(f, g, Zero) ELSE XLe(f, g, Zero), zh, s2))))

\* add_3sum -> <<s, e, t>>
T3Sum(f, x, y, z, Q, P) ==
  LET a1 == T2Sum(f, x, y, FALSE, FALSE)
      a2 == T2Sum(f, a1[1], z, FALSE, FALSE)
      a3 == T2Sum(f, a1[2], a2[2], FALSE, FALSE)
      a4 == T2Sum(f, a2[1], a3[1], TRUE, FALSE)
      zh == a4[1]  zl == a4[2]  vl == a3[2]
      w == XAdd(f, vl, zl)
      s1 == XAdd(f, zh, w)
      d == XSub(f, w, zl)
      t == XSub(f, vl, d)
      s2 == XAdd(f, zh, XMul(f, C32(f), w))
      g == XMul(f, t, w)
      s == TPick(f, ~TIsPow2(f, w, Q, P), s1, zh, s1, s2, t, g, TRUE)
      e == XSub(f, w, XSub(f, s, zh))
      a5 == T2Sum(f, e, t, TRUE, FALSE)
  IN  <<s, a5[1], a5[2]>>

\* add_dw
TAddDW(f, xh, xl, yh, yl, Q, P) ==
  LET a1 == T2Sum(f, xh, yh, FALSE, FALSE)
      a2 == T2Sum(f, xl, yl, FALSE, FALSE)
      a3 == T2Sum(f, a1[2], a2[1], FALSE, FALSE)
      a4 == T2Sum(f, a1[1], a3[1], TRUE, FALSE)
      a5 == T2Sum(f, a4[2], a2[2], TRUE, FALSE)
      a6 == T2Sum(f, a4[1], a5[1], TRUE, FALSE)
      zh == a6[1]
      q == T3Sum(f, a6[2], a5[2], a3[2], Q, P)
      r == q[1]
      t == XAdd(f, q[2], q[3])
      s1 == XAdd(f, zh, r)
      s2 == XAdd(f, zh, XMul(f, C32(f), r))
      g == XMul(f, t, r)
  IN  TPick(f, ~TIsPow2(f, t, Q, P), zh, zh, s1, s2, t, g, FALSE)

T4Sum(f, x, y, z, w, Q, P) ==
  LET a == T2Sum(f, x, y, FALSE, FALSE)
      b == T2Sum(f, z, w, FALSE, FALSE)
  IN  TAddDW(f, a[1], a[2], b[1], b[2], Q, P)

\* dot2 / mul_add call mul_dekker(x, y, C): scale = True (default), fix_overflow = False
TDot2(f, x, y, z, w, C, Q, P) ==
  LET a == TDekker(f, x, y, C, TRUE, FALSE)
      b == TDekker(f, z, w, C, TRUE, FALSE)
  IN  TAddDW(f, a[1], a[2], b[1], b[2], Q, P)

TMulAdd(f, x, y, z, C, Q, P) ==
  LET m == TDekker(f, x, y, C, TRUE, FALSE)
      a1 == T2Sum(f, m[1], z, FALSE, FALSE)
      a2 == T2Sum(f, a1[2], m[2], FALSE, FALSE)
      a3 == T2Sum(f, a1[1], a2[1], TRUE, FALSE)
      a4 == T2Sum(f, a3[2], a2[2], FALSE, FALSE)
      zh == a3[1]  r == a4[1]  t == a4[2]
      s1 == XAdd(f, zh, r)
      s2 == XAdd(f, zh, XMul(f, C32(f), r))
      g == XMul(f, t, r)
  IN  TPick(f, ~TIsPow2(f, t, Q, P), zh, zh, s1, s2, t, g, FALSE)

\* apmath.renormalize([a, b, c], functional=True, size=2, fast=False, fix_overflow=fo) -> <<hi, lo>>
TRenorm3(f, a, b, c, fo) ==
  LET v1 == T2Sum(f, b, c, FALSE, fo)
      v0 == T2Sum(f, a, v1[1], FALSE, fo)
      e1 == v0[1]  e2 == v0[2]  e3 == v1[2]
      u1 == T2Sum(f, e1, e2, FALSE, fo)
      p1 == XNe(f, u1[2], Zero)
      f1 == Sel(p1, u1[1], Zero)
      eps1 == Sel(p1, u1[2], u1[1])
      u2 == T2Sum(f, eps1, e3, FALSE, fo)
      p2 == XNe(f, u2[2], Zero)
      f2 == Sel(p2, u2[1], Zero)
      f3 == Sel(p2, u2[2], u2[1])
      \* nztopk(<<f1, f2, f3>>, 2)
      n1 == XNe(f, f1, Zero)  n2 == XNe(f, f2, Zero)  n3 == XNe(f, f3, Zero)
      c2 == IF n1 THEN 1 ELSE 0
      c3 == c2 + (IF n2 THEN 1 ELSE 0)
      pick(nz, cnt, i, v) == Sel(nz /\ cnt = i, v, Zero)
      hi == XAdd(f, XAdd(f, pick(n3, c3, 0, f3), pick(n1, 0, 0, f1)), pick(n2, c2, 0, f2))
      lo == XAdd(f, pick(n3, c3, 1, f3), pick(n2, c2, 1, f2))
  IN  <<hi, lo>>

\* the emulated fused multiply-add: copy = "apmath" (apmath.fma, scale = True, assume_fma = False)
\* or "algo" (apmath_algorithms.fma_real); alg in a7 a8 a9 apmath; fo = fix_overflow; pz = possibly_zero_z
\* m = TDekker(f, x, y, CSplitN(f), TRUE, fo) (two_prod: default splitter constant, scale = True)
TFmaM(f, copy, alg, fo, pz, m, z) ==
  LET mh == m[1]  ml == m[2]
  IN
  CASE alg = "a9" ->
         LET s == T2Sum(f, mh, z, FALSE, fo)
             v == T2Sum(f, m[2], s[2], FALSE, FALSE)
             vh == v[1]  vl == v[2]
             cond == ~TIs13Pow2(f, vh) \/ XEq(f, vl, Zero)
             same == (XGt(f, vh, Zero) /\ XGt(f, vl, Zero)) \/ ~(XGt(f, vh, Zero) \/ XGt(f, vl, Zero))
             c0 == IF pz THEN Sel(XEq(f, z, Zero), Zero, COne(f)) ELSE COne(f)
             c == Sel(cond, c0, Sel(same, C98(f), C78(f)))
         IN  XAdd(f, XMul(f, c, vh), s[1])
    [] alg = "a7" ->
         LET s == T2Sum(f, mh, z, FALSE, fo)
             v == XAdd(f, ml, s[2])
             zz == T2Sum(f, s[1], v, copy = "apmath", fo)
         IN  XAdd(f, zz[1], zz[2])
    [] alg = "a8" ->
         LET xx == T2Sum(f, mh, ml, FALSE, fo)
             s == T2Sum(f, xx[1], z, FALSE, fo)
             v == T2Sum(f, xx[2], s[2], FALSE, fo)
             zz == T2Sum(f, s[1], v[1], TRUE, fo)
             zh == zz[1]  zl == zz[2]  vl == v[2]
             w == XAdd(f, vl, zl)
             st1 == XAdd(f, zh, w)
             st2 == XAdd(f, zh, XMul(f, C32(f), w))
             t == XSub(f, vl, XSub(f, w, zl))
             g == XMul(f, t, w)
         IN  Sel(TIsPow2Default(f, w),
                 Sel(XEq(f, st2, zh), zh, Sel(XEq(f, t, Zero), st1, Sel(XLt(f, g, Zero), zh, st2))),
                 st1)
    [] alg = "apmath" ->
         LET r == TRenorm3(f, z, mh, ml, fo) IN XAdd(f, r[1], r[2])
TFma(f, copy, alg, fo, pz, x, y, z) == TFmaM(f, copy, alg, fo, pz, TDekker(f, x, y, CSplitN(f), TRUE, fo), z)
=============================================================================
