\* U1 of C08 (thorough): DAGs of at most 3 operation nodes, one representative kind per table row
\* (MC_Types!RepKinds, 23 kinds); the disagreement list AllDIS still ranges over all 52 kinds
SPECIFICATION Spec
CONSTANTS
  MaxNodes = 3
  AllKinds = FALSE
INVARIANTS Closed Listed CleanMatch
CHECK_DEADLOCK FALSE
