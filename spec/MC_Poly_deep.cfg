\* U1 of C16 (thorough): all pairs of polynomials with <= 4 coefficients from {-1, 0, 1/2}; points {-2, 0, 1/2, 3}
SPECIFICATION Spec
CONSTANT MaxLen = 4
CONSTANT UseOne = FALSE
INVARIANT EvalAgree AddLaw MulLaw ScaleLaw DerivLaw DerivBase TaylorLaw RatioLaw DivLaw RevLaw LaurentLaw TrimLaw PowLaw
CHECK_DEADLOCK FALSE
