\* stage 1 of U1 (C11): arithmetic tables of T4 = [p = 4, emax = 3, w = 7]
SPECIFICATION Spec
CONSTANT Fmt = "T4"
INVARIANT Emit
CHECK_DEADLOCK FALSE
