\* exhaustive: 3 context objects, 18 requests, nesting <= 3, behaviours <= 7 steps (quick tier),
\* exceptions at any depth (Exit(TRUE)), re-entry attempts, hardware flag noise
SPECIFICATION Spec
CONSTANTS
  Objs <- MC_Objs3
  ReqSet <- MC_ReqSmall
  InitRegs <- MC_InitRegs
  DesiredAt = "enter"
  MaxDepth = 3
  MaxLevel = 7
CONSTRAINT Bounded
INVARIANT TypeOK
INVARIANT SavedIsEntry
INVARIANT BalancedIsIdentity
INVARIANT NestIsComposition
PROPERTY OnlyRequestedBits
PROPERTY ExitRestores
CHECK_DEADLOCK FALSE
