----------------------------- MODULE MC_Accuracy ----------------------------
(***************************************************************************)
(* U1 for the clause machinery of Accuracy.tla, on a TOY format            *)
(* Toy = [p |-> 3, emax |-> 3, w |-> 6] (64 patterns; MC_Accuracy_p4.cfg:  *)
(* p = 4, emax = 7, w = 8, 256 patterns), exhaustively over inputs AND     *)
(* outputs:                                                                *)
(*  exact   for square, absolute (every non-NaN x) and hypot (every pair   *)
(*          of non-negative finite x <= y): for EVERY non-NaN output w and *)
(*          N in {0, 1, 3, 4}:  WithinN says "ok" exactly when w is within *)
(*          N lattice steps of RN(t) computed directly by IEEE!RN (or of   *)
(*          the other neighbour when t is a tie), and never "un".  This    *)
(*          checks the cell ends, the clamping at the infinities, the      *)
(*          overflow threshold and the crossing of zero against the plain  *)
(*          definition of the property.                                    *)
(*  trans   for asin, acos, asinh, acosh (every x of the domain that is    *)
(*          not a limit point): the set of accepted outputs is never       *)
(*          undecided, its ordinals are contiguous, of size 2N+1 (2N+2 on  *)
(*          a tie) unless clamped at an infinity; the set for N = 0 is     *)
(*          inside the set for N = 3 which is inside the set for N = 4.    *)
(*  anchor  values known from the proved constants: asin(1) = acos(0) =    *)
(*          pi/2, acos(-1) = pi, asin(1/2) = pi/6, acos(1/2) = pi/3,       *)
(*          asinh(3/4) = acosh(5/4) = ln 2, asinh(4/3) = acosh(5/3) = ln 3 *)
(*          is not dyadic - skipped): with N = 0 the accepted set is       *)
(*          exactly {RN(constant)}.                                        *)
(*  table   NaN / limit clauses on every x for a few outputs.              *)
(* States: root -> 32 groups -> <<class, fn, x, y>> (fan-out so that all   *)
(* TLC workers evaluate invariants).                                       *)
(***************************************************************************)
EXTENDS Accuracy, FiniteSets
CONSTANTS TP, TEMAX, TW
VARIABLE st

Toy == [p |-> TP, emax |-> TEMAX, w |-> TW]
NonNaN == {b \in AllBits(Toy) : ~IsNaN(Toy, b)}
Finite == {b \in AllBits(Toy) : IsFinite(Toy, b)}
Ns == {0, 1, 3, 4}

(*************************** direct definition *****************************)
\* RN(sqrt(d)) for a dyadic d > 0 (construction of IEEE!FSqrt)
SqrtRN(f, d) ==
  LET m == d[1][2]
      e == d[2]
      k0 == Max(0, 2 * f.p + 6 - NBitLen(m))
      k == IF (e - k0) % 2 = 0 THEN k0 ELSE k0 + 1
      a == NShl(m, k)
      r == NSqrt(a)
      mm == NAdd(NShl(r, 1), IF NMul(r, r) = a THEN <<>> ELSE NOne)
  IN  RN(f, DMk(ZMk(0, mm), (e - k) \div 2 - 1))
\* the set of correctly rounded results of an exact dyadic t # 0 (two on a tie)
RoundingsExact(f, t) ==
  LET c == RN(f, t)
      oc == Ord(f, c)
      lowTie == oc # ZNegInf(f) /\ DEq(t, CellLo(f, oc))
      highTie == oc # ZInf(f) /\ DEq(t, CellHi(f, oc))
  IN  {c} \cup (IF lowTie THEN {FromOrd(f, ZSub(oc, ZOne))} ELSE {})
          \cup (IF highTie THEN {FromOrd(f, ZAdd(oc, ZOne))} ELSE {})
\* same for t = sqrt(s), s an exact dyadic > 0
RoundingsSqrt(f, s) ==
  LET c == SqrtRN(f, s)
      oc == Ord(f, c)
      lowTie == DEq(s, DMul(CellLo(f, oc), CellLo(f, oc)))
      highTie == oc # ZInf(f) /\ DEq(s, DMul(CellHi(f, oc), CellHi(f, oc)))
  IN  {c} \cup (IF lowTie THEN {FromOrd(f, ZSub(oc, ZOne))} ELSE {})
          \cup (IF highTie THEN {FromOrd(f, ZAdd(oc, ZOne))} ELSE {})
Near(f, w, cs, N) == \E c \in cs : NCmp(Dist(f, w, c), NFromInt(N)) <= 0

ExactOK(fn, x, y) ==
  LET f == Toy
      vx == Val(f, x)
      vy == IF fn = "hypot" THEN Val(f, y) ELSE DZero
      cs == CASE fn = "square" -> RoundingsExact(f, DMul(vx, vx))
              [] fn = "absolute" -> RoundingsExact(f, DAbs(vx))
              [] fn = "hypot" -> RoundingsSqrt(f, DAdd(DMul(vx, vx), DMul(vy, vy)))
  IN  \A w \in NonNaN : \A N \in Ns :
        LET v == WithinN(fn, f, vx, vy, w, N)
        IN  v # "un" /\ ((v = "ok") = Near(f, w, cs, N))

(*************************** transcendental functions **********************)
InDomain(fn, x) ==
  /\ IsFinite(Toy, x) /\ ~Undefined(fn, Toy, x) /\ Limit(fn, Toy, x) = "none"
Accepted(fn, x, N) == {w \in NonNaN : WithinN(fn, Toy, Val(Toy, x), DZero, w, N) = "ok"}
Undecided(fn, x, N) == {w \in NonNaN : WithinN(fn, Toy, Val(Toy, x), DZero, w, N) = "un"}
OrdInt(w) == ZToInt(Ord(Toy, w))
InfInt == NToInt(InfMag(Toy))
SetMax(S) == CHOOSE m \in S : \A s \in S : s <= m
SetMin(S) == CHOOSE m \in S : \A s \in S : s >= m
Contiguous(A, N) ==
  LET O == {OrdInt(w) : w \in A}
      lo == SetMin(O)
      hi == SetMax(O)
      n == Cardinality(O)
  IN  /\ A # {}
      /\ hi - lo + 1 = n
      /\ (n \in {2 * N + 1, 2 * N + 2} \/ hi = InfInt \/ lo = -InfInt)
TransOK(fn, x) ==
  /\ \A N \in {0, 3, 4} : Undecided(fn, x, N) = {} /\ Contiguous(Accepted(fn, x, N), N)
  /\ Accepted(fn, x, 0) \subseteq Accepted(fn, x, 3)
  /\ Accepted(fn, x, 3) \subseteq Accepted(fn, x, 4)

(*************************** anchors ***************************************)
\* a real constant given by an enclosure whose two ends round to the same float
RNI(X) == IF RN(Toy, X[1]) = RN(Toy, X[2]) THEN {RN(Toy, X[1])} ELSE {RN(Toy, X[1]), RN(Toy, X[2])}
Bits(d) == RN(Toy, d)                          \* pattern of an exactly representable dyadic
Half == <<ZFromInt(1), -1>>
AnchorOK ==
  /\ Accepted("asin", Bits(DOne), 0) = RNI(HalfPiI)
  /\ Accepted("asin", Bits(DNeg(DOne)), 0) = RNI(INeg(HalfPiI))
  /\ Accepted("acos", Bits(DNeg(DOne)), 0) = RNI(PiI)
  /\ Accepted("acos", PosZero(Toy), 0) = RNI(HalfPiI)
  /\ Accepted("acos", NegZero(Toy), 0) = RNI(HalfPiI)
  /\ Accepted("asin", Bits(Half), 0) = RNI(IDivInt(PiI, 6, 200))
  /\ Accepted("acos", Bits(Half), 0) = RNI(IDivInt(PiI, 3, 200))
  /\ Accepted("acos", Bits(DNeg(Half)), 0) = RNI(IDivInt(IScale(PiI, 1), 3, 200))
  /\ Accepted("asinh", Bits(<<ZFromInt(3), -2>>), 0) = RNI(Ln2I)
  /\ Accepted("asinh", Bits(<<ZFromInt(-3), -2>>), 0) = RNI(INeg(Ln2I))
  /\ Accepted("acosh", Bits(<<ZFromInt(5), -2>>), 0) = RNI(Ln2I)

(*************************** NaN / limit tables ****************************)
TableOK(fn, x) ==
  LET f == Toy
      one == OneBits(f)
      V(w) == Verdict1(fn, f, x, w).fails
      nan == NAdd(InfMag(f), NOne)
  IN  IF IsNaN(f, x) THEN V(one) = {} /\ V(nan) = {}
      ELSE IF Undefined(fn, f, x) THEN V(nan) = {} /\ V(one) = {"nan_expected"} /\ V(PosInf(f)) = {"nan_expected"}
      ELSE /\ V(nan) = {"spurious_nan"}
           /\ (Limit(fn, f, x) \in {"zero+", "zero-"} =>
                 V(PosZero(f)) = {} /\ V(NegZero(f)) = {} /\ V(NOne) = {"limit"} /\ V(PosInf(f)) = {"limit"})
           /\ (Limit(fn, f, x) = "pinf" => V(PosInf(f)) = {} /\ V(LargestMag(f)) = {"limit"} /\ V(NegInf(f)) = {"limit"})
           /\ (Limit(fn, f, x) = "ninf" => V(NegInf(f)) = {} /\ V(PosInf(f)) = {"limit"})
\* where the functions are undefined, as plain statements about values
UndefOK(x) ==
  LET f == Toy
      fin == IsFinite(f, x)
      v == IF fin THEN Val(f, x) ELSE DZero
  IN  ~IsNaN(f, x) =>
        /\ Undefined("asin", f, x) = (IsInf(f, x) \/ DLt(DOne, DAbs(v)))
        /\ Undefined("acos", f, x) = Undefined("asin", f, x)
        /\ Undefined("acosh", f, x) = (x = NegInf(f) \/ (fin /\ DLt(v, DOne)))
        /\ ~Undefined("asinh", f, x) /\ ~Undefined("square", f, x) /\ ~Undefined("absolute", f, x)

(*************************** states ****************************************)
NonNeg == {b \in Finite : SignBit(Toy, b) = 0}
Work ==
  {<<"exact", fn, x, <<>>>> : fn \in {"square", "absolute"}, x \in {b \in Finite : ~IsZero(Toy, b)}}
  \cup UNION {{<<"exact", "hypot", x, y>> : y \in {b \in NonNeg : NCmp(x, b) <= 0 /\ ~IsZero(Toy, b)}} : x \in NonNeg}
  \cup UNION {{<<"trans", fn, x, <<>>>> : x \in {b \in Finite : InDomain(fn, b)}} : fn \in {"asin", "acos", "asinh", "acosh"}}
  \cup {<<"table", fn, x, <<>>>> : fn \in UnaryFns, x \in AllBits(Toy)}
  \cup {<<"anchor", "all", <<>>, <<>>>>}
NGroups == 32
GroupOf(s) == (NToInt(s[3]) + 5 * NToInt(s[4]) + Len(s[2])) % NGroups
Init == st = <<"root">>
Next == \/ st = <<"root">> /\ st' \in {<<"group", g>> : g \in 0..(NGroups - 1)}
        \/ st[1] = "group" /\ st' \in {s \in Work : GroupOf(s) = st[2]}
Spec == Init /\ [][Next]_st

AccOK ==
  CASE st[1] = "exact" -> ExactOK(st[2], st[3], st[4])
    [] st[1] = "trans" -> TransOK(st[2], st[3])
    [] st[1] = "table" -> TableOK(st[2], st[3]) /\ UndefOK(st[3])
    [] st[1] = "anchor" -> AnchorOK
    [] OTHER -> TRUE
Count == st = <<"root">> => PrintT(<<"WORK", Cardinality(Work)>>)
=============================================================================
