----------------------------- MODULE TypedTerms -----------------------------
(***************************************************************************)
(* Generator of WELL-TYPED IR terms together with a dtype assignment of    *)
(* their symbols, for the spec->code replay of C08 (FATerms.tla is the     *)
(* untyped float-only generator of C04; this one carries types).  TLC      *)
(* enumerates / samples; the driver builds each term in the real package.  *)
(*                                                                         *)
(* A term is a nested tuple                                                *)
(*   <<"sym", name, type>>        symbol with its assigned static type     *)
(*   <<"const", value, like>>     constant `like` another term             *)
(*   <<"constT", value, type>>    constant with the like given as a type   *)
(*   <<"const0", value>>          constant created without a like          *)
(*                                ("int:2", "1.5", "cplx", "true", ...)    *)
(* Leaf constants of different types mostly carry different values: the    *)
(* package names a constant after its value only, and constants of one     *)
(* value with different likes end up in one variable (a finding of its     *)
(* own that would otherwise dominate the deeper terms).                    *)
(*   <<kind, operand, ...>>       operation                                *)
(* A symbol name has ONE type inside a term (the dtype assignment).        *)
(* Well-typedness is FATypes!WellTyped on the static types FATypes!TypeOf  *)
(* computes; ill-typed programs (logical_not of a float ...) are never     *)
(* emitted.  Each term is printed with the static type the spec derives    *)
(* for it: <<"H", term, ST(term)>>; the driver cross-checks it against the *)
(* package (a drift note if different; the term is still well-typed by the *)
(* discipline and is used: a package that infers another static type for   *)
(* it is exactly what the trace spec must get to see).                     *)
(*                                                                         *)
(*   Gen = "ops1"    every 1-operation term, every kind, over every pair   *)
(*                   of symbol dtypes and every constant flavour           *)
(*   Gen = "ops2"    every 2-operation term over representative kinds,     *)
(*                   incl. constants like the inner operation (Small:      *)
(*                   a smaller set of representative kinds)                *)
(*   Gen = "random"  NumRandom random terms of depth <= MaxDepth under a   *)
(*                   random dtype assignment of x, y, z                    *)
(***************************************************************************)
EXTENDS FATypes

CONSTANTS Gen, NumRandom, MaxDepth, Small

Sym(nm, t) == <<"sym", nm, t>>
Const(v, like) == <<"const", v, like>>
ConstT(v, t) == <<"constT", v, t>>
Const0(v) == <<"const0", v>>
IsLeaf(t) == t[1] \in {"sym", "const", "constT", "const0"}

Const0Type(v) == CASE v \in {"int:2", "int:3", "int:5"} -> TInt
                   [] v \in {"1.5", "0.25"} -> TFloat(0)
                   [] v = "cplx" -> TComplex(0)
                   [] OTHER -> TBool

\* the package normalises the like of a constant to the expression its type is taken from
NormFirstKinds == {"negative", "positive", "add", "subtract", "multiply", "divide", "maximum", "minimum", "acos", "acosh",
                   "asin", "asinh", "atan", "atan2", "atanh", "cos", "cosh", "sin", "sinh", "tan", "tanh", "exp", "exp2",
                   "expm1", "log", "log1p", "log2", "log10", "hypot", "sqrt", "square"}
RECURSIVE ST(_), NormLike(_)
NormLike(t) ==
  CASE t[1] = "const" -> NormLike(t[3])
    [] t[1] = "select" -> NormLike(t[3])
    [] t[1] \in NormFirstKinds -> NormLike(t[2])
    [] t[1] = "absolute" /\ ~IsCplx(ST(t[2])) -> NormLike(t[2])
    [] t[1] \in {"real", "imag"} /\ t[2][1] = "complex" -> NormLike(t[2][IF t[1] = "real" THEN 2 ELSE 3])
    [] OTHER -> t
ST(t) ==
  CASE t[1] = "sym" -> t[3]
    [] t[1] = "const" -> ST(NormLike(t[3]))
    [] t[1] = "constT" -> t[3]
    [] t[1] = "const0" -> Const0Type(t[2])
    [] OTHER -> TypeOf(t[1], [i \in 1..(Len(t) - 1) |-> ST(t[i + 1])])

\* one name, one type
RECURSIVE SymsOf(_)
SymsOf(t) == CASE t[1] = "sym" -> {<<t[2], t[3]>>}
               [] t[1] = "const" -> SymsOf(t[3])
               [] t[1] \in {"constT", "const0"} -> {}
               [] OTHER -> UNION {SymsOf(t[i]) : i \in 2..Len(t)}
Consistent(t) == \A p \in SymsOf(t), q \in SymsOf(t) : p[1] = q[1] => p[2] = q[2]

Mk(k, ops) == <<k>> \o ops
OkOp(k, ops) == Len(ops) = Arity(k) /\ WellTyped(k, [i \in 1..Len(ops) |-> ST(ops[i])])
OkConst(like) == IsFC(ST(NormLike(like)))

Kinds1 == {k \in OpKinds : Arity(k) = 1}
Kinds2 == {k \in OpKinds : Arity(k) = 2}

(*************************** "ops1" ****************************************)
NL1(tx, ty) == {Sym("x", tx), Sym("y", ty), Const("1", Sym("x", tx)), Const("0.25", Sym("y", ty)),
                Const0("int:2"), Const0("1.5"), Const0("cplx")}
BL1 == {Sym("b", TBool), Const0("true")}
Terms1(L) ==
     {Mk(k, <<a>>) : k \in Kinds1, a \in L}
  \cup {Mk(k, <<a, b>>) : k \in Kinds2, a \in L, b \in L}
  \cup {Mk("select", <<c, a, b>>) : c \in {Sym("b", TBool)}, a \in L, b \in L}
Ops1 == UNION {{t \in Terms1(NL1(tx, ty) \cup BL1) : OkOp(t[1], SubSeq(t, 2, Len(t)))} : tx \in SymTypes, ty \in SymTypes}

(*************************** "ops2" ****************************************)
\* Two-operation terms: an inner operation over x, y and an integer constant, fed into every position
\* of an outer operation whose other operand is a symbol; constants LIKE the inner operation used
\* beside it; conditions that are a symbol or a comparison.  The dtype assignment ranges over
\* unordered pairs (both operand orders occur inside the terms).
\* Small = TRUE (quick tier, which samples the result anyway): fewer representative kinds
Rep1 == IF Small THEN {"sqrt", "absolute", "real", "upcast", "downcast"}
        ELSE {"negative", "sqrt", "absolute", "real", "imag", "conjugate", "upcast", "downcast", "square", "exp"}
Rep2 == IF Small THEN {"add", "maximum", "copysign", "complex"}
        ELSE {"add", "divide", "maximum", "minimum", "copysign", "hypot", "pow", "complex"}
TOrd(t) == Rank(t[1]) * 1000 + t[2]
Pairs == {p \in SymTypes \X SymTypes : TOrd(p[1]) <= TOrd(p[2])}
Inner(L) == {t \in {Mk(k, <<a>>) : k \in Rep1, a \in L} \cup {Mk(k, <<a, b>>) : k \in Rep2, a \in L, b \in L}
                 : OkOp(t[1], SubSeq(t, 2, Len(t)))}
Outer(I, L) ==
  LET IC == {j \in I : OkConst(j)}
      B == {Sym("b", TBool)} \cup {t \in {Mk("lt", <<a, b>>) : a \in L, b \in L} : t[2] # t[3] /\ OkOp("lt", <<t[2], t[3]>>)}
      all == {Mk(k, <<i>>) : k \in Rep1 \cup {"is_finite"}, i \in I}
             \cup {Mk(k, <<i, a>>) : k \in Rep2 \cup {"lt", "eq"}, i \in I, a \in L}
             \cup {Mk(k, <<a, i>>) : k \in Rep2 \cup {"lt", "eq"}, i \in I, a \in L}
             \cup {Mk(k, <<a, Const("3", i)>>) : k \in {"add", "maximum"}, i \in IC, a \in L}
             \cup {Mk("multiply", <<Const("3", i), i>>) : i \in IC}
             \cup {Mk("select", <<c, i, a>>) : c \in B, i \in I, a \in L}
             \cup {Mk("select", <<c, a, i>>) : c \in B, i \in I, a \in L}
  IN  {t \in all : OkOp(t[1], SubSeq(t, 2, Len(t)))}
Ops2 == UNION {LET L == {Sym("x", p[1]), Sym("y", p[2])} IN Outer(Inner(L \cup {Const0("int:2")}), L) : p \in Pairs}

(*************************** "random" **************************************)
\* Every random draw is bound through a set enumeration (c \in {Pick(..)}) so that it is evaluated
\* exactly once (LET bodies and operator arguments are re-evaluated per use by TLC).
Vals == {"1", "2", "3", "0.25", "1.5", "largest", "eps", "posinf", "pi"}
CVals == {"1", "2", "0.25", "largest", "eps"}
Pick(S) == RandomElement(S)
Names == {"x", "y", "z"}
RECURSIVE RandF(_, _), RandC(_, _), RandB(_, _), RandN(_, _), ProdF(_, _, _), ProdC(_, _, _), ProdB(_, _, _)
FLeaves(A) == {Sym(nm, A[nm]) : nm \in {m \in Names : IsFloat(A[m])}}
              \cup {ConstT("2", TFloat(32)), ConstT("3", TFloat(64)), Const0("1.5"), Const0("int:5")}
CLeaves(A) == {Sym(nm, A[nm]) : nm \in {m \in Names : IsCplx(A[m])}} \cup {Const0("cplx"), ConstT("7", TComplex(64))}
BLeaves == {Sym("b", TBool), Sym("c", TBool), Const0("true"), Const0("false")}
\* well-typed, or fall back to an operand / a boolean symbol
Guard(k, ops, fb) == IF OkOp(k, ops) THEN Mk(k, ops) ELSE fb
U(K, S) == CHOOSE r \in {Guard(k, <<a>>, a) : k \in K, a \in S} : TRUE
Bin(K, S, T) == CHOOSE r \in {Guard(k, <<a, b>>, a) : k \in K, a \in S, b \in T} : TRUE
Sel(C, S, T) == CHOOSE r \in {Guard("select", <<c, a, b>>, a) : c \in C, a \in S, b \in T} : TRUE
BU(K, S) == CHOOSE r \in {Guard(k, <<a>>, Sym("b", TBool)) : k \in K, a \in S} : TRUE
BBin(K, S, T) == CHOOSE r \in {Guard(k, <<a, b>>, Sym("c", TBool)) : k \in K, a \in S, b \in T} : TRUE
CLike(V, S) == CHOOSE r \in {IF OkConst(a) THEN Const(v, a) ELSE a : v \in V, a \in S} : TRUE

RandN(A, d) == CHOOSE r \in {IF c = 1 THEN RandC(A, d) ELSE RandF(A, d) : c \in {Pick(1..3)}} : TRUE
RandF(A, d) == IF d = 0 THEN Pick(FLeaves(A)) ELSE CHOOSE r \in {ProdF(A, d, c) : c \in {Pick(1..20)}} : TRUE
RandC(A, d) == IF d = 0 THEN Pick(CLeaves(A)) ELSE CHOOSE r \in {ProdC(A, d, c) : c \in {Pick(1..16)}} : TRUE
RandB(A, d) == IF d = 0 THEN Pick(BLeaves) ELSE CHOOSE r \in {ProdB(A, d, c) : c \in {Pick(1..12)}} : TRUE
ProdF(A, d, c) ==
  CASE c <= 2 -> Pick(FLeaves(A))
    [] c <= 3 -> CLike({Pick(Vals)}, {RandF(A, d - 1)})
    [] c <= 5 -> U({Pick(MathKinds \cup {"negative", "positive", "square", "sign", "ceil", "floor"})}, {RandF(A, d - 1)})
    [] c <= 7 -> U({Pick(PartKinds)}, {RandC(A, d - 1)})
    [] c <= 8 -> U({Pick({"upcast", "downcast", "conjugate", "real", "imag", "absolute"})}, {RandF(A, d - 1)})
    [] c <= 12 -> Bin({Pick(ArithKinds \cup {"pow"})}, {RandF(A, d - 1)}, {RandF(A, d - 1)})
    [] c <= 16 -> Bin({Pick({"maximum", "minimum", "hypot", "copysign", "atan2"})}, {RandF(A, d - 1)}, {RandF(A, d - 1)})
    [] c <= 17 -> Bin({Pick(ArithKinds)}, {RandF(A, d - 1)}, {CLike({Pick(Vals)}, {RandF(A, d - 1)})})
    [] OTHER -> Sel({RandB(A, d - 1)}, {RandF(A, d - 1)}, {RandF(A, d - 1)})
ProdC(A, d, c) ==
  CASE c <= 2 -> Pick(CLeaves(A))
    [] c <= 3 -> CLike({Pick(CVals)}, {RandC(A, d - 1)})
    [] c <= 5 -> U({Pick(MathKinds \cup {"negative", "positive", "square", "sign", "conjugate"})}, {RandC(A, d - 1)})
    [] c <= 6 -> U({Pick({"upcast", "downcast"})}, {RandC(A, d - 1)})
    [] c <= 9 -> Bin({"complex"}, {RandF(A, d - 1)}, {RandF(A, d - 1)})
    [] c <= 12 -> Bin({Pick(ArithKinds \cup {"pow"})}, {RandC(A, d - 1)}, {RandN(A, d - 1)})
    [] c <= 14 -> Bin({Pick(ArithKinds)}, {RandF(A, d - 1)}, {RandC(A, d - 1)})
    [] OTHER -> Sel({RandB(A, d - 1)}, {RandN(A, d - 1)}, {RandC(A, d - 1)})
ProdB(A, d, c) ==
  CASE c <= 1 -> Pick(BLeaves)
    [] c <= 5 -> BBin({Pick(OrderKinds)}, {RandF(A, d - 1)}, {RandF(A, d - 1)})
    [] c <= 7 -> BBin({Pick({"eq", "ne"})}, {RandN(A, d - 1)}, {RandN(A, d - 1)})
    [] c <= 8 -> BU({"is_finite"}, {RandN(A, d - 1)})
    [] c <= 10 -> BBin({Pick(Logical2)}, {RandB(A, d - 1)}, {RandB(A, d - 1)})
    [] c <= 11 -> BU({"logical_not"}, {RandB(A, d - 1)})
    [] OTHER -> CHOOSE r \in {Guard("select", <<p, q, s>>, q) : p \in {RandB(A, d - 1)}, q \in {RandB(A, d - 1)}, s \in {RandB(A, d - 1)}} : TRUE
RandTerm(A, d, w) == IF w = 1 THEN RandB(A, d) ELSE IF w <= 5 THEN RandF(A, d) ELSE RandC(A, d)

(*************************** emission ***************************************)
VARIABLE n
TermSet == CASE Gen = "ops1" -> Ops1 [] Gen = "ops2" -> Ops2 [] OTHER -> {}
Emit(t) == PrintT(<<"H", t, ST(t)>>)
Init == n = 0
Next == \/ /\ Gen # "random" /\ n = 0 /\ n' = 1
           /\ \A t \in TermSet : Emit(t)
        \/ /\ Gen = "random" /\ n < NumRandom /\ n' = n + 1
           /\ \E A \in {Pick([Names -> SymTypes])}, d \in {Pick(2..MaxDepth)}, w \in {Pick(1..8)} :
                \E t \in {RandTerm(A, d, w)} : IF IsLeaf(t) \/ ~Consistent(t) THEN TRUE ELSE Emit(t)
Spec == Init /\ [][Next]_n
=============================================================================
