\* U1 of C03: all 1024 complex values over the toy format T5 = [p=2, emax=3, w=5] (algebra of the symmetry
\* operators, closure of the exclusion sets, satisfiability and classification of the identity clauses on
\* model functions) and 3072 of the 65536 patterns of float16 (low six bits 000000, 000001, 111111) (sign-bit primitives on limb lists against IEEE.tla)
SPECIFICATION Spec
CONSTANT Tier = "quick"
INVARIANTS Primitives Algebra Real1 Closed Satisfiable Classified BrokenCaught RealModels
CHECK_DEADLOCK FALSE
