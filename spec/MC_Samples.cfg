\* U1 of C19 (quick): toy format [p=3, emax=1, w=5]; every bounds pair / single bound / no bounds,
\* all flag combinations, sizes below; Mutant = "none" is the real run
CONSTANTS
  Sizes = {6, 7, 10, 11, 13, 20}
  Mutant = "none"
  Wide = FALSE
SPECIFICATION Spec
INVARIANT Post
POSTCONDITION Stats
CHECK_DEADLOCK FALSE
