--------------------------- MODULE Trace_Pipeline ---------------------------
(***************************************************************************)
(* Validation of the merged generation logs of many real processes         *)
(* (different PYTHONHASHSEED values, different request histories).  One    *)
(* line per generated text: process id, hash seed, position in the         *)
(* process's history, request id, digest (sha256 of the text, or of the    *)
(* exception text when generation raised).  The whole file is one          *)
(* behaviour: `first` maps each request to the first digest seen.          *)
(*   deterministic   a request was answered with two different texts       *)
(*                   (other seed, other history, repetition)               *)
(***************************************************************************)
EXTENDS TraceKit
VARIABLES l, first

Fails(e) == IF e.req \in DOMAIN first /\ first[e.req] # e.digest THEN {"deterministic"} ELSE {}

Init == l = 1 /\ first = <<>>
Next == /\ l <= Len(Trace)
        /\ LET e == Trace[l]
           IN  /\ Report(e, Fails(e))
               /\ first' = IF e.req \in DOMAIN first THEN first ELSE first @@ (e.req :> e.digest)
        /\ l' = l + 1
Spec == Init /\ [][Next]_<<l, first>>
=============================================================================
