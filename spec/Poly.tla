-------------------------------- MODULE Poly --------------------------------
(***************************************************************************)
(* Exact polynomial algebra over the rationals of BigInt.tla (property     *)
(* C16).  A rational is <<z, d>> (z signed limb integer, d non-zero limb   *)
(* natural), NOT normalised: compare only with QEq.  A polynomial is a     *)
(* sequence of rationals, lowest power first:                              *)
(*          P = <<c0, c1, ..., cN>>   means   c0 + c1 x + ... + cN x^N     *)
(* The empty sequence and any all-zero sequence denote the zero            *)
(* polynomial; trailing (highest power) zero entries never change the      *)
(* polynomial denoted, so "the same polynomial" is PEq, not =.             *)
(*                                                                         *)
(* Everything here is a definition by recursion on the sequence; MC_Poly   *)
(* checks the ring laws between these definitions on all small             *)
(* polynomials so that an error in one of them cannot silently become the  *)
(* oracle of Trace_Poly.                                                   *)
(***************************************************************************)
EXTENDS BigInt

QZero == <<ZZero, NOne>>
QOne == <<<<0, NOne>>, NOne>>
QInt(n) == <<ZFromInt(n), NOne>>                      \* native integer n

RECURSIVE QPow(_, _)
QPow(x, n) == IF n = 0 THEN QOne ELSE QMul(x, QPow(x, n - 1))          \* n >= 0
QPowZ(x, m) == IF m >= 0 THEN QPow(x, m) ELSE QPow(QInv(x), -m)        \* m < 0 requires x # 0

RECURSIVE QFact(_)
QFact(n) == IF n = 0 THEN QOne ELSE QMul(QInt(n), QFact(n - 1))

(*************************** sequences as polynomials **********************)
\* TLC keeps [i \in 1..n |-> e] as a lazy function and re-evaluates e at every application
\* (exponential in nested use): SubSeq forces it once into an explicit tuple of n entries.
Tup(f, n) == IF n <= 0 THEN <<>> ELSE SubSeq(f, 1, n)

PCoef(P, i) == IF i >= 1 /\ i <= Len(P) THEN P[i] ELSE QZero           \* coefficient of x^(i-1)

RECURSIVE PTrim(_)
PTrim(P) == IF Len(P) = 0 THEN <<>>
            ELSE IF QIsZero(P[Len(P)]) THEN PTrim(SubSeq(P, 1, Len(P) - 1))
            ELSE P
Deg(P) == Len(PTrim(P)) - 1                           \* degree; -1 for the zero polynomial
PIsZero(P) == \A i \in 1..Len(P) : QIsZero(P[i])

\* the same polynomial (lengths may differ by zero high-order entries)
PEq(P, Q) == \A i \in 1..Max(Len(P), Len(Q)) : QEq(PCoef(P, i), PCoef(Q, i))
\* the same sequence of rationals
PSame(P, Q) == Len(P) = Len(Q) /\ \A i \in 1..Len(P) : QEq(P[i], Q[i])

PRev(P) == Tup([i \in 1..Len(P) |-> P[Len(P) + 1 - i]], Len(P))

(*************************** evaluation ************************************)
\* P(x) = c0 + x * (c1 + x * ( ... ))   - the definition by recursion on the sequence
RECURSIVE PEvalFrom(_, _, _)
PEvalFrom(P, x, i) == IF i > Len(P) THEN QZero
                      ELSE QAdd(P[i], QMul(x, PEvalFrom(P, x, i + 1)))
\* For long lists the same value by blocks of b coefficients, P(x) = P_lo(x) + x^b * P_hi(x), which
\* keeps TLC's evaluation stack shallow (a 500-deep PEvalFrom overflows a 16 MB Java stack).
\* MC_Poly checks PEvalB(P, x, 1) = PEvalB(P, x, 2) = PEvalFrom(P, x, 1).
RECURSIVE PEvalB(_, _, _)
PEvalB(P, x, b) == IF Len(P) <= b THEN PEvalFrom(P, x, 1)
                   ELSE QAdd(PEvalFrom(SubSeq(P, 1, b), x, 1),
                             QMul(QPow(x, b), PEvalB(SubSeq(P, b + 1, Len(P)), x, b)))
PEval(P, x) == PEvalB(P, x, 64)

\* the same value as an explicit sum of powers (used by MC_Poly to guard PEval)
RECURSIVE PEvalPowFrom(_, _, _)
PEvalPowFrom(P, x, i) == IF i > Len(P) THEN QZero
                         ELSE QAdd(QMul(P[i], QPow(x, i - 1)), PEvalPowFrom(P, x, i + 1))
PEvalPow(P, x) == PEvalPowFrom(P, x, 1)

\* Laurent polynomial  sum_j C[j] x^(j + m),  j = 0..Len(C)-1 (C[j] is the (j+1)-th entry);
\* m < 0 requires x # 0
LEval(C, m, x) == QMul(PEval(C, x), QPowZ(x, m))
RECURSIVE LEvalPowFrom(_, _, _, _)
LEvalPowFrom(C, m, x, i) == IF i > Len(C) THEN QZero
                            ELSE QAdd(QMul(C[i], QPowZ(x, i - 1 + m)), LEvalPowFrom(C, m, x, i + 1))
LEvalPow(C, m, x) == LEvalPowFrom(C, m, x, 1)

(*************************** ring operations *******************************)
PAdd(P, Q) == Tup([i \in 1..Max(Len(P), Len(Q)) |-> QAdd(PCoef(P, i), PCoef(Q, i))], Max(Len(P), Len(Q)))
PScale(c, P) == Tup([i \in 1..Len(P) |-> QMul(c, P[i])], Len(P))
PNeg(P) == Tup([i \in 1..Len(P) |-> QNeg(P[i])], Len(P))

\* coefficient k (1-based) of the product: sum of P[i] * Q[k + 1 - i]
RECURSIVE Conv(_, _, _, _)
Conv(P, Q, k, i) == IF i > Min(Len(P), k) THEN QZero
                    ELSE QAdd(QMul(P[i], Q[k + 1 - i]), Conv(P, Q, k, i + 1))
PMul(P, Q) == IF Len(P) = 0 \/ Len(Q) = 0 THEN <<>>
              ELSE Tup([k \in 1..(Len(P) + Len(Q) - 1) |-> Conv(P, Q, k, Max(1, k + 1 - Len(Q)))],
                       Len(P) + Len(Q) - 1)

PDeriv(P) == IF Len(P) <= 1 THEN <<>>
             ELSE Tup([i \in 1..(Len(P) - 1) |-> QMul(QInt(i), P[i + 1])], Len(P) - 1)
RECURSIVE PDerivN(_, _)
PDerivN(P, n) == IF n = 0 THEN P ELSE PDerivN(PDeriv(P), n - 1)

(*************************** re-expansion about a point ********************)
\* Taylor coefficients of P at a:  c_k = P^(k)(a) / k!,  k = 0..Len(P)-1, so that
\*   sum_k c_k (z - a)^k  =  P(z)
RECURSIVE TaylorFrom(_, _, _, _)
TaylorFrom(D, a, k, n) ==                             \* D is the k-th derivative
  IF k >= n THEN <<>>
  ELSE <<QDiv(PEval(D, a), QFact(k))>> \o TaylorFrom(PDeriv(D), a, k + 1, n)
PTaylorAt(P, a) == TaylorFrom(P, a, 0, Len(P))

\* the same polynomial obtained by composition with a shift: PShift(P, a)(w) = P(w + a)
RECURSIVE PShiftFrom(_, _, _)
PShiftFrom(P, a, i) == IF i > Len(P) THEN <<>>
                       ELSE PAdd(<<P[i]>>, PMul(<<a, QOne>>, PShiftFrom(P, a, i + 1)))
PShift(P, a) == PShiftFrom(P, a, 1)

(*************************** ratio form ************************************)
\* rcoeffs[i] = coeffs[i] / coeffs[i - 1] with coeffs[-1] = 1  (0-based, as documented in
\* polynomial.rpolynomial), i.e. coeffs[i] = rcoeffs[0] * rcoeffs[1] * ... * rcoeffs[i]
RECURSIVE FromRatioAcc(_, _, _)
FromRatioAcc(R, i, acc) == IF i > Len(R) THEN <<>>
                           ELSE LET c == QMul(acc, R[i]) IN <<c>> \o FromRatioAcc(R, i + 1, c)
PFromRatio(R) == FromRatioAcc(R, 1, QOne)
\* the ratio form exists iff every coefficient but the last is non-zero
RatioDomain(C) == \A i \in 1..(Len(C) - 1) : ~QIsZero(C[i])
PToRatio(C) == Tup([i \in 1..Len(C) |-> IF i = 1 THEN C[1] ELSE QDiv(C[i], C[i - 1])], Len(C))
\* value of a ratio-form polynomial written the way it is meant to be evaluated:
\*   r0 * (1 + r1 x (1 + r2 x (1 + ...)))
RECURSIVE RNest(_, _, _)
RNest(R, x, i) == IF i > Len(R) THEN QOne
                  ELSE QAdd(QOne, QMul(QMul(R[i], x), RNest(R, x, i + 1)))
REvalNested(R, x) == QMul(R[1], RNest(R, x, 2))       \* Len(R) >= 1

(*************************** division **************************************)
DivModOK(P, D, Q, R) == /\ PEq(P, PAdd(PMul(Q, D), R))
                        /\ Deg(R) < Deg(D)
DivIdentity(P, D, Q, R) == PEq(P, PAdd(PMul(Q, D), R))

\* long division (D # 0): <<quotient, remainder>>.  Used by MC_Poly to show DivModOK is
\* satisfiable for every P, D # 0, and by Trace_Poly only to classify a failure.
Monomial(t, s) == Tup([i \in 1..(s + 1) |-> IF i = s + 1 THEN t ELSE QZero], s + 1)       \* t * x^s
RECURSIVE DivRec(_, _, _)
DivRec(R, D, Q) ==                                    \* R, D trimmed, D # <<>>
  IF Len(R) < Len(D) THEN <<Q, R>>
  ELSE LET t == QDiv(R[Len(R)], D[Len(D)])
           s == Len(R) - Len(D)
           diff == PAdd(R, PNeg(PMul(Monomial(t, s), D)))
           \* the leading terms cancel exactly; drop that entry by construction
           R2 == PTrim(SubSeq(diff, 1, Len(R) - 1))
       IN  DivRec(R2, D, PAdd(Q, Monomial(t, s)))
PDivMod(P, D) == DivRec(PTrim(P), PTrim(D), <<>>)
=============================================================================
