\* exhaustive over every entry of the three targets' kind_to_target / constant_to_target tables (generated TargetTables.tla)
SPECIFICATION Spec
CHECK_DEADLOCK FALSE
