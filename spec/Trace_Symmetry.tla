--------------------------- MODULE Trace_Symmetry ---------------------------
(***************************************************************************)
(* U3 for C03: every recorded orbit of evaluations of the package's own    *)
(* expansion of an algorithm (harness/evalalgo.py) is judged by            *)
(* Symmetry.tla.                                                           *)
(*                                                                         *)
(* Events (one ndjson line each; floats are raw bit patterns as BigInt     *)
(* limb lists, nothing is interpreted by the driver):                      *)
(*  kind "orbit": fmt ("float32" | "float64": the component format), fn    *)
(*     (algorithm name), z = base point (<<re, im>> or <<x>>), W = the     *)
(*     algorithm's results at the sign images of z in the order            *)
(*     z, Conj z, Neg z, Neg Conj z (real argument: x, -x), each result a  *)
(*     tuple <<re, im>> or <<v>>; P = <<>> or the parent function at the   *)
(*     corresponding points (see Symmetry!OrbitFails).                     *)
(*     The images are computed by the SPEC from z; the driver's own images *)
(*     (the points it really evaluated) are validated by the "ops" events. *)
(*  kind "ops": fmt, z, c, n, r, q = the driver's Conj z, Neg z, RotI z,   *)
(*     NRotI z (bit patterns of the arrays it evaluates the algorithms on).*)
(*     A mismatch with the spec's operators is a harness defect            *)
(*     (clauses ops_conj ...; the driver turns them into a machinery failure).*)
(*  kind "shape": fmt, z, cx, ox, cy, oy, rel = the input class the driver *)
(*     claims for a point it concretised from a shape of SymmetryShapes    *)
(*     (class of |re z| and lattice offset from its nominal point, the     *)
(*     same for |im z|, relation of the magnitudes).  A mismatch (clauses  *)
(*     shape_cx, shape_cy, shape_rel) is a harness defect as well.         *)
(***************************************************************************)
EXTENDS Symmetry, TraceKit
VARIABLE l

\* the driver's claim about a point it concretised from a TLC shape
ShapeFails(e) ==
  LET f == FmtOf(e.fmt)
  IN  (IF e.cx \notin Classes \/ ~ClassHolds(f, e.cx, e.ox, e.z[1]) THEN {"shape_cx"} ELSE {})
      \cup (IF Len(e.z) = 2 /\ (e.cy \notin Classes \/ ~ClassHolds(f, e.cy, e.oy, e.z[2])) THEN {"shape_cy"} ELSE {})
      \cup (IF Len(e.z) = 2 /\ ~RelHolds(f, e.rel, e.z) THEN {"shape_rel"} ELSE {})

OpsFails(e) ==
  LET f == FmtOf(e.fmt)
  IN  (IF e.c # Conj(f, e.z) THEN {"ops_conj"} ELSE {})
      \cup (IF e.n # Neg(f, e.z) THEN {"ops_neg"} ELSE {})
      \cup (IF Len(e.z) = 2 /\ e.r # RotI(f, e.z) THEN {"ops_rot"} ELSE {})
      \cup (IF Len(e.z) = 2 /\ e.q # NRotI(f, e.z) THEN {"ops_nrot"} ELSE {})

Fails(e) ==
  IF e.kind = "ops" THEN OpsFails(e)
  ELSE IF e.kind = "shape" THEN ShapeFails(e)
  ELSE IF ~OrbitShapeOK(e.fn, e.z, e.W, e.P) THEN {"malformed"}
  ELSE OrbitFails(FmtOf(e.fmt), e.fn, e.z, e.W, e.P)

Init == l = 1
Next == /\ l <= Len(Trace)
        /\ Report(Trace[l], Fails(Trace[l]))
        /\ l' = l + 1
Spec == Init /\ [][Next]_l
=============================================================================
