--------------------------- MODULE MC_CompoundTab ---------------------------
(***************************************************************************)
(* Stage 1 of U1 for C11: memoisation tables of a toy format, written as   *)
(* JSON files into the directory named by the environment variable         *)
(* C11_TAB_DIR and read back by MC_Compound (stage 2):                     *)
(*   add_<a>.json / mul_<a>.json   row a of the tables of XAdd0 / XMul0    *)
(*                                 (a, b = pattern + 1), bit patterns      *)
(*   una_<a>.json                  <<XNeg0, XAbs0, Val, IsNaN as 0/1, signed *)
(*                                 ordinal split as <<sign, magnitude>>>>  *)
(*   const_0.json                  the constants of the algorithms         *)
(* One state per file, so all TLC workers share the work.  Everything is   *)
(* computed by Compound.tla / IEEE.tla: the tables are pure memoisation.   *)
(***************************************************************************)
EXTENDS Compound, TLC, Json, IOUtils
CONSTANT Fmt
T3 == [p |-> 3, emax |-> 3, w |-> 6]
T4 == [p |-> 4, emax |-> 3, w |-> 7]
T5 == [p |-> 5, emax |-> 7, w |-> 9]
T6 == [p |-> 6, emax |-> 7, w |-> 10]
F == CASE Fmt = "T3" -> T3 [] Fmt = "T4" -> T4 [] Fmt = "T5" -> T5 [] Fmt = "T6" -> T6
NP == Pow2(F.w)
VARIABLES t, a
Path(tt, aa) == IOEnv.C11_TAB_DIR \o "/" \o tt \o "_" \o ToString(aa) \o ".json"
P(n) == NFromInt(n - 1)
Row(tt, aa) ==
  CASE tt = "add" -> [b \in 1..NP |-> XAdd0(F, P(aa), P(b))] \o <<>>
    [] tt = "mul" -> [b \in 1..NP |-> XMul0(F, P(aa), P(b))] \o <<>>
    [] tt = "una" -> <<XNeg0(F, P(aa)), XAbs0(F, P(aa)), Val(F, P(aa)),
                       IF IsNaN(F, P(aa)) THEN 1 ELSE 0, Ord(F, P(aa))>>
    [] tt = "const" -> <<COne(F), C32(F), C98(F), C78(F), CQ(F), CP(F), CQ13(F), CP13(F), CSplitN(F),
                         CSplitC(F), CSplitInvN(F), CXMax(F), CLargest(F), CNext(F)>>
Init == \/ t \in {"add", "mul", "una"} /\ a \in 1..NP
        \/ t = "const" /\ a = 0
Next == UNCHANGED <<t, a>>
Spec == Init /\ [][Next]_<<t, a>>
Emit == JsonSerialize(Path(t, a), Row(t, a))
=============================================================================
