SPECIFICATION Spec
CONSTANTS
  Gen = "ops1"
  NumRandom = 100
  MaxDepth = 4
  Small = FALSE
CHECK_DEADLOCK FALSE
