------------------------------ MODULE MC_Types ------------------------------
(***************************************************************************)
(* U1 for C08: every well-typed DAG of at most MaxNodes operation nodes    *)
(* over the leaf types of the scope (symbols float16/32/64, complex64/128, *)
(* boolean; constants like a symbol or created without a like: integer,    *)
(* unsized float / complex, boolean).  A DAG is explored up to the types   *)
(* of its nodes: the state is the set of (static type, run-time dtype)     *)
(* pairs of the nodes built so far; a step adds one node of any kind whose *)
(* operands (leaves or earlier nodes) satisfy the typing discipline, with  *)
(* static type TypeOf(...) and any run-time dtype NpResult(...) allows.    *)
(*                                                                         *)
(* A DISAGREEMENT is a node whose operands all have static = run-time but  *)
(* whose own static type differs from a dtype NumPy may produce.  The      *)
(* design-level finding list AllDIS is computed over the leaf types and    *)
(* printed once (<<"DIS", kind, operand static types, static, runtime>>);  *)
(* the model check then establishes for all DAGs of the bound:             *)
(*   Closed      static types never leave the leaf types (so AllDIS, which  *)
(*               is computed over leaf types, is complete)                 *)
(*   Listed      every disagreement met on any path is in AllDIS           *)
(*   CleanMatch  a DAG without a disagreeing node has static = run-time at *)
(*               every node (inference and promotion compose)              *)
(* Constants: MC_Types_quick.cfg MaxNodes = 2, one representative kind per *)
(* table row (RepKinds) in the DAGs (quick); MC_Types.cfg MaxNodes = 2,    *)
(* all 52 kinds, and MC_Types_deep.cfg MaxNodes = 3, RepKinds (thorough).  *)
(* AllDIS always ranges over all kinds.                                    *)
(* U1 validates the two tables against each other; it says nothing about  *)
(* the code (that is Trace_Types).                                         *)
(***************************************************************************)
EXTENDS FATypes
CONSTANTS MaxNodes, AllKinds
VARIABLES pool, n, clean, last

vars == <<pool, n, clean, last>>
Leaves == {<<t, DtypeOf(t)>> : t \in LeafTypes}
Matched(p) == DtypeOf(p[1]) = p[2]

TuplesOver(S, ar) == IF ar = 1 THEN {<<a>> : a \in S}
                     ELSE IF ar = 2 THEN {<<a, b>> : a \in S, b \in S}
                     ELSE {<<a, b, c>> : a \in S, b \in S, c \in S}
Sts(ops) == [i \in 1..Len(ops) |-> ops[i][1]]
Dts(ops) == [i \in 1..Len(ops) |-> ops[i][2]]

AllDIS ==
  UNION {UNION {{<<k, Sts(ops), TypeOf(k, Sts(ops)), rt>> :
                    rt \in {r \in NpResult(k, Sts(ops), Dts(ops)) : DtypeOf(TypeOf(k, Sts(ops))) # r}}
                : ops \in {o \in TuplesOver(Leaves, Arity(k)) : WellTyped(k, Sts(o))}}
         : k \in OpKinds}
NumWellTyped == Cardinality(UNION {{<<k, Sts(o)>> : o \in {o \in TuplesOver(Leaves, Arity(k)) : WellTyped(k, Sts(o))}} : k \in OpKinds})

\* the kinds explored in DAGs: all of them, or one representative per row of the two tables
\* (kinds of one row have literally the same TypeOf / WellTyped / NpResult case)
RepKinds == {"lt", "eq", "logical_and", "is_finite", "logical_not", "sqrt", "negative", "square", "ceil", "sign",
             "copysign", "conjugate", "add", "divide", "pow", "maximum", "hypot", "absolute", "real",
             "select", "complex", "upcast", "downcast"}
Kinds == IF AllKinds THEN OpKinds ELSE RepKinds

Init == /\ pool = {} /\ n = 0 /\ clean = TRUE /\ last = <<"none">>
        /\ \A d \in AllDIS : PrintT(<<"DIS", d[1], d[2], d[3], d[4]>>)
        /\ PrintT(<<"COUNTS", Cardinality(AllDIS), NumWellTyped>>)

AddNode(k) ==
  /\ n < MaxNodes
  /\ \E ops \in TuplesOver(Leaves \cup pool, Arity(k)) :
       LET ts == Sts(ops)
           ds == Dts(ops)
       IN  /\ WellTyped(k, ts)
           /\ \E rt \in NpResult(k, ts, ds) :
                LET p == <<TypeOf(k, ts), rt>>
                    dis == (\A i \in 1..Len(ops) : Matched(ops[i])) /\ ~Matched(p)
                IN  /\ pool' = pool \cup {p}
                    /\ n' = n + 1
                    /\ clean' = (clean /\ ~dis)
                    /\ last' = IF dis THEN <<k, ts, p[1], rt>> ELSE <<"none">>
Unary == \E k \in {k \in Kinds : Arity(k) = 1} : AddNode(k)
Binary == \E k \in {k \in Kinds : Arity(k) = 2} : AddNode(k)
Ternary == AddNode("select")
Next == Unary \/ Binary \/ Ternary
Spec == Init /\ [][Next]_vars

Closed == \A p \in pool : p[1] \in LeafTypes
Listed == last = <<"none">> \/ last \in AllDIS
CleanMatch == clean => \A p \in pool : Matched(p)
=============================================================================
