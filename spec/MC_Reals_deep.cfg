\* U1 (thorough): grid j/16, |j| <= 96 (binary laws: x k/4, |k| <= 16), W in {24, 53, 96, 160}
SPECIFICATION Spec
CONSTANTS
  GridN = 96
  GridShift = 4
  GridK = 16
  KStep = 4
  Ws = {24, 53, 96, 160}
  Only = {}
  Sabotage = 0
INVARIANT LawsOK
CHECK_DEADLOCK FALSE
