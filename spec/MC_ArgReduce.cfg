\* U1: proves the enclosures of ln 2 (300 bits) and pi (1300 bits) from series, Guard = 48 bits
SPECIFICATION Spec
CONSTANTS
  What = "consts"
  Guard = 48
  DivCases = 400
INVARIANT ConstsOK
INVARIANT Witness
CHECK_DEADLOCK FALSE
