-------------------------- MODULE AccuracyCShapes ---------------------------
(***************************************************************************)
(* U2 generator for C01: TLC enumerates the abstract INPUT CLASSES of the  *)
(* complex algorithms and concretises them for float32 / float64           *)
(* components with IEEE.tla; the driver (harness/props/c01.py) evaluates   *)
(* the package's expansions on them (complex64 / complex128).              *)
(*                                                                         *)
(* A class is (function, anchor of x, anchor of y) x offsets (kx, ky)      *)
(* lattice steps x the four sign combinations, or a RELATION shape.        *)
(* Printed values:                                                         *)
(*  <<"C", anchor, k, b32, b64>>   the magnitude pattern k lattice steps   *)
(*        from the anchor (<<-1>> when it leaves [0, inf])                 *)
(*  <<"P", fn, ax, ay>>            a pair class of fn (the relevant anchor *)
(*        sets are per function AND per component: tables XA / YA)         *)
(*  <<"R", kind, fns, tag, k, <<x32, y32>>, <<x64, y64>>>>  relation       *)
(*        shapes (signed patterns):                                        *)
(*     circle   |z| = 1:   y = RN(sqrt(1 - x^2)) + k  (log's Dekker/2Sum   *)
(*              accumulation of x^2+y^2-1; the kernel's |x| <= 1 edge)     *)
(*     circle1p |1+z| = 1: the same shifted by -1 (log1p: 2x+x^2+y^2 ~ 0)  *)
(*     parab    x = RN(-y^2/2) + k  (log1p case A: catastrophic            *)
(*              cancellation line)                                         *)
(*     l1       |1+x| + |y| = 0.2  (log1p's switch to case C)              *)
(*     ellipse  a = (|z+1| + |z-1|)/2 = 1.5  (asin_acos_kernel's I1 / I2   *)
(*              switch): x^2/2.25 + y^2/1.25 = 1                           *)
(*     ratio    |y| = |x| / inv_negeps + k  (atanh's Eq 4 / Eq 5 switch)   *)
(* Anchors (region boundaries named in functional_algorithms/algorithms.py *)
(* asin_acos_kernel, complex_log1p, complex_log, complex_atanh,            *)
(* complex_sqrt, complex_exp, complex_square, hypot):                      *)
(*   zero, minsub, sub_mid, minnormal, sqrt_minsub (y*y underflows),       *)
(*   safe_min = 4 sqrt(smallest normal), eps = 2^-p, eps_half = 2^-(p/2),  *)
(*   fifth (0.2), half, sqrt_half, four_fifths, one, six_fifths, onehalf,  *)
(*   two, halfpi, pi, inv_negeps = nextafter(2^p), atanh_safe_max =        *)
(*   inv_negeps^2, exp_ovf = RN(log largest), exp_ovf2 = 2 exp_ovf,        *)
(*   exp_udf = RN(-log minsub), safe_max = sqrt(largest)/8 and             *)
(*   safe_max * {1e-6, 1e2, 1e12}, log1p_safe_max = sqrt(largest) * 0.01,  *)
(*   sqrt_largest, largest_half, largest, inf.                             *)
(* Constant Ks: the offsets (AccuracyCShapes.cfg: -2..2).                  *)
(***************************************************************************)
EXTENDS IEEE, Reals, TLC, FiniteSets
CONSTANTS Ks
VARIABLE sh

(*************************** anchors ***************************************)
SqrtRN(f, d) ==
  LET m == d[1][2]
      e == d[2]
      k0 == Max(0, 2 * f.p + 6 - NBitLen(m))
      k == IF (e - k0) % 2 = 0 THEN k0 ELSE k0 + 1
      a == NShl(m, k)
      r == NSqrt(a)
      mm == NAdd(NShl(r, 1), IF NMul(r, r) = a THEN <<>> ELSE NOne)
  IN  RN(f, DMk(ZMk(0, mm), (e - k) \div 2 - 1))
Pow2Bits(f, e) == NShl(NFromInt(e + f.emax), f.p - 1)           \* pattern of 2^e, EMin <= e <= emax
D2(e) == <<ZFromInt(1), e>>
OneB(f) == Pow2Bits(f, 0)
IntB(f, n) == RN(f, DFromInt(n))
\* RN of a real number given by an enclosure whose ends round alike (Assert otherwise)
RNI(f, X) == IF RN(f, X[1]) = RN(f, X[2]) THEN RN(f, X[1]) ELSE Assert(FALSE, "AccuracyCShapes: ambiguous rounding of an anchor")
SqrtLargest(f) == FSqrt(f, LargestMag(f))
SafeMax(f) == NSub(SqrtLargest(f), NShl(NFromInt(3), f.p - 1))                 \* sqrt(largest) / 8
Million(f) == RN(f, DMul(DFromInt(1000), DFromInt(1000)))
InvNegEps(f) == NAdd(Pow2Bits(f, f.p), NOne)
Anchor(f, a) ==
  CASE a = "zero" -> <<>>
    [] a = "minsub" -> NOne
    [] a = "sub_mid" -> NPow2(f.p - 2)
    [] a = "minnormal" -> MinNormalMag(f)
    [] a = "sqrt_minsub" -> Pow2Bits(f, QMin(f) \div 2)
    [] a = "safe_min" -> Pow2Bits(f, EMin(f) \div 2 + 2)
    [] a = "eps" -> Pow2Bits(f, -f.p)
    [] a = "eps_half" -> Pow2Bits(f, -(f.p \div 2))
    [] a = "fifth" -> FDiv(f, OneB(f), IntB(f, 5))
    [] a = "half" -> Pow2Bits(f, -1)
    [] a = "sqrt_half" -> SqrtRN(f, D2(-1))
    [] a = "four_fifths" -> FDiv(f, IntB(f, 4), IntB(f, 5))
    [] a = "one" -> OneB(f)
    [] a = "six_fifths" -> FDiv(f, IntB(f, 6), IntB(f, 5))
    [] a = "onehalf" -> NAdd(OneB(f), NPow2(f.p - 2))
    [] a = "two" -> Pow2Bits(f, 1)
    [] a = "halfpi" -> RNI(f, HalfPiI)
    [] a = "pi" -> RNI(f, PiI)
    [] a = "inv_negeps" -> InvNegEps(f)
    [] a = "atanh_safe_max" -> FMul(f, InvNegEps(f), InvNegEps(f))
    [] a = "exp_ovf" -> RNI(f, LogP(Val(f, LargestMag(f)), 100))
    [] a = "exp_ovf2" -> RNI(f, IScale(LogP(Val(f, LargestMag(f)), 100), 1))
    [] a = "exp_udf" -> RNI(f, INeg(LogP(D2(QMin(f)), 100)))
    [] a = "safe_max_m6" -> FMul(f, SafeMax(f), FDiv(f, OneB(f), Million(f)))
    [] a = "safe_max" -> SafeMax(f)
    [] a = "safe_max_p2" -> FMul(f, SafeMax(f), IntB(f, 100))
    [] a = "safe_max_p12" -> FMul(f, SafeMax(f), RN(f, DMul(Val(f, Million(f)), Val(f, Million(f)))))
    [] a = "log1p_safe_max" -> FMul(f, SqrtLargest(f), FDiv(f, OneB(f), IntB(f, 100)))
    [] a = "sqrt_largest" -> SqrtLargest(f)
    [] a = "largest_half" -> NSub(LargestMag(f), NPow2(f.p - 1))
    [] a = "largest" -> LargestMag(f)
    [] a = "inf" -> InfMag(f)

Edge == {"zero", "minsub", "minnormal", "one", "largest", "inf"}
Kernel == Edge \cup {"sqrt_minsub", "safe_min", "eps_half", "half", "onehalf", "two", "safe_max_m6", "safe_max",
                     "safe_max_p2", "safe_max_p12", "sqrt_largest"}
LogA == Edge \cup {"sqrt_minsub", "eps_half", "half", "sqrt_half", "two", "sqrt_largest", "largest_half"}
Log1pA == Edge \cup {"sqrt_minsub", "eps", "eps_half", "fifth", "half", "four_fifths", "six_fifths", "two",
                     "log1p_safe_max", "sqrt_largest"}
AtanhA == Edge \cup {"sqrt_minsub", "eps", "eps_half", "half", "two", "inv_negeps", "atanh_safe_max", "sqrt_largest"}
SqrtA == Edge \cup {"sub_mid", "eps", "half", "two", "sqrt_largest", "largest_half"}
SquareA == Edge \cup {"sqrt_minsub", "eps_half", "two", "sqrt_largest"}
ExpX == Edge \cup {"eps", "exp_ovf", "exp_ovf2", "exp_udf"}
ExpY == Edge \cup {"eps_half", "halfpi", "pi", "two", "sqrt_largest"}
Fns == {"absolute", "acos", "acosh", "asin", "asinh", "atan", "atanh", "exp", "log", "log2", "log10", "log1p",
        "sqrt", "square"}
XA(fn) == CASE fn \in {"asin", "acos", "asinh", "acosh"} -> Kernel
            [] fn \in {"log", "log2", "log10"} -> LogA
            [] fn = "log1p" -> Log1pA
            [] fn \in {"atanh", "atan"} -> AtanhA
            [] fn = "sqrt" -> SqrtA
            [] fn \in {"square", "absolute"} -> SquareA
            [] fn = "exp" -> ExpX
YA(fn) == IF fn = "exp" THEN ExpY ELSE XA(fn)
AllAnchors == UNION {XA(fn) \cup YA(fn) : fn \in Fns}

Bad == <<-1>>
Off(f, mag, k) ==
  IF k < 0 THEN (IF NCmp(mag, NFromInt(-k)) < 0 THEN Bad ELSE NSub(mag, NFromInt(-k)))
  ELSE LET m == NAdd(mag, NFromInt(k)) IN IF NCmp(m, InfMag(f)) > 0 THEN Bad ELSE m
Signed(f, s, mag) == IF mag = Bad THEN Bad ELSE WithSign(f, s, mag)

(*************************** relation shapes *******************************)
\* x values of the circle / ellipse shapes as dyadics <<numerator, -shift>>
CircleXs == {<<1, 1>>, <<1, 2>>, <<3, 2>>, <<7, 3>>, <<1, 6>>, <<63, 6>>, <<5, 3>>, <<1, 12>>}
EllipseXs == {<<0, 0>>, <<3, 3>>, <<3, 2>>, <<9, 3>>, <<11, 3>>}        \* 0, 3/8, 3/4, 9/8, 11/8
ParabYs == {-1, -3, -6, -10, -20}                                        \* y = 2^e (and 3 * 2^(e-2))
L1As == {<<1, 4>>, <<1, 3>>, <<5, 5>>, <<3, 4>>}                        \* a = |1 + x| in {1/16, 1/8, 5/32, 3/16}
DQ(q) == DMk(ZFromInt(q[1]), -q[2])
RelShapes ==
  {<<"circle", x, k>> : x \in CircleXs, k \in Ks} \cup {<<"circle1p", x, k>> : x \in CircleXs, k \in Ks}
  \cup {<<"parab", <<e, m>>, k>> : e \in ParabYs, m \in {1, 3}, k \in Ks}
  \cup {<<"l1", a, k>> : a \in L1As, k \in Ks}
  \cup {<<"ellipse", x, k>> : x \in EllipseXs, k \in Ks}
  \cup {<<"ratio", j, k>> : j \in {1, 2, 3}, k \in Ks}
RelFns(kind) ==
  CASE kind = "circle" -> {"log", "log2", "log10", "asin", "acos", "asinh", "acosh", "atanh", "atan", "absolute"}
    [] kind = "circle1p" -> {"log1p"}
    [] kind = "parab" -> {"log1p"}
    [] kind = "l1" -> {"log1p"}
    [] kind = "ellipse" -> {"asin", "acos", "asinh", "acosh"}
    [] kind = "ratio" -> {"atanh", "atan"}
\* <<x, y>> signed patterns (first quadrant unless the shape fixes a sign; the driver adds the reflections)
RelBits(f, r) ==
  LET kind == r[1]
      k == r[3]
  IN  CASE kind \in {"circle", "circle1p"} ->
             LET x == DQ(r[2])
                 y == Off(f, SqrtRN(f, DSub(DOne, DMul(x, x))), k)
                 xs == IF kind = "circle" THEN x ELSE DSub(x, DOne)
             IN  <<RN(f, xs), y>>
        [] kind = "parab" ->
             LET y == DMk(ZFromInt(r[2][2]), r[2][1] - 2)
                 x == Off(f, Mag(f, RN(f, DShl(DMul(y, y), -1))), k)
             IN  <<Signed(f, 1, x), RN(f, y)>>
        [] kind = "l1" ->
             LET a == DQ(r[2])
                 y == Off(f, Mag(f, FSub(f, Anchor(f, "fifth"), RN(f, a))), k)
             IN  <<RN(f, DSub(a, DOne)), y>>
        [] kind = "ellipse" ->
             LET x == DQ(r[2])
                 \* y^2 = 5/4 - (5/9) x^2, dyadic for the chosen x (multiples of 3/8)
                 x3 == DMk(ZFromInt(r[2][1] \div 3), -r[2][2])                  \* x / 3
                 y2 == DSub(DMk(ZFromInt(5), -2), DMul(DFromInt(5), DMul(x3, x3)))
             IN  <<RN(f, x), Off(f, SqrtRN(f, y2), k)>>
        [] kind = "ratio" ->
             LET x == IF r[2] = 1 THEN FMul(f, Anchor(f, "atanh_safe_max"), IntB(f, 2))
                      ELSE IF r[2] = 2 THEN Anchor(f, "sqrt_largest") ELSE Anchor(f, "largest_half")
                 y == Off(f, FDiv(f, x, InvNegEps(f)), k)
             IN  <<x, y>>

(*************************** enumeration ***********************************)
States == {<<"C", a, k>> : a \in AllAnchors, k \in Ks}
          \cup UNION {{<<"P", fn, ax, ay>> : ax \in XA(fn), ay \in YA(fn)} : fn \in Fns}
          \cup {<<"R", r>> : r \in RelShapes}
Init == sh \in States
Next == UNCHANGED sh
Spec == Init /\ [][Next]_sh

Emit ==
  CASE sh[1] = "C" -> PrintT(<<"C", sh[2], sh[3], Off(F32, Anchor(F32, sh[2]), sh[3]), Off(F64, Anchor(F64, sh[2]), sh[3])>>)
    [] sh[1] = "P" -> PrintT(sh)
    [] sh[1] = "R" -> PrintT(<<"R", sh[2][1], RelFns(sh[2][1]), sh[2][2], sh[2][3], RelBits(F32, sh[2]), RelBits(F64, sh[2])>>)

\* sanity of the anchors against independent literals (constants printed in the generated code / IEEE facts)
AnchorsSane ==
  /\ Anchor(F32, "sqrt_largest") = <<32767, 16127, 1>>       \* 0x5F7FFFFF
  /\ Anchor(F32, "onehalf") = <<0, 32640>>                   \* 0x3FC00000
  /\ Anchor(F32, "fifth") = <<19661, 31897>>                 \* 0x3E4CCCCD
  /\ Anchor(F32, "pi") = <<4059, 146, 1>>                    \* 0x40490FDB
  /\ Anchor(F32, "safe_min") = <<0, 16896>>                  \* 2^-61 = 0x21000000
  /\ Anchor(F32, "inv_negeps") = <<1, 5888, 1>>              \* 16777218 = 0x4B800001
  /\ Anchor(F32, "exp_ovf") = <<29208, 1378, 1>>             \* 88.72284 = 0x42B17218
  /\ Anchor(F32, "safe_max_m6") = <<14268, 10252, 1>>        \* 0x540637BC
  /\ Anchor(F32, "safe_max_p12") = <<21668, 25553, 1>>       \* 0x71E8D4A4
  /\ Anchor(F32, "log1p_safe_max") = <<22281, 14407, 1>>     \* 0x5C23D709
KsFull == -2..2
KsQuick == {-1, 0, 1}
=============================================================================
