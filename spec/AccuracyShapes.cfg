\* U2 (thorough): every offset -64..64 around every anchor; hypot pair offsets -8..8
SPECIFICATION Spec
CONSTANTS
  Ks <- KsFull
  KsHypot <- KsHypotFull
INVARIANT Emit
INVARIANT AnchorsSane
CHECK_DEADLOCK FALSE
