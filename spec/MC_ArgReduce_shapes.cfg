\* U2: input-shape classes (function x format x class)
SPECIFICATION Spec
CONSTANTS
  What = "shapes"
  Guard = 48
  DivCases = 1
INVARIANT EmitShape
CHECK_DEADLOCK FALSE
