------------------------------- MODULE MC_Ulp -------------------------------
(***************************************************************************)
(* U1 for C14: the consequences the property lists are theorems of the     *)
(* definitions in Ulp.tla.  Exhaustive over ALL monotone triples           *)
(* x <= y <= z (by value) of finite patterns of a toy format and, for the  *)
(* flush-mode laws, over all collapse maps given by the threshold pairs    *)
(* Thr x Thr.  The independent notions used to state the laws are the      *)
(* exact value order (Val, DLt/DLe) and counting of representable values;  *)
(* nothing on the right-hand sides uses Ord.                               *)
(*                                                                         *)
(* A state is one triple (x, y, z).  The initial states fix x, one step    *)
(* chooses y and z (so that TLC's workers share the work); the laws are    *)
(* one state predicate (Laws) that prints the names of the failing laws.   *)
(* Laws that are not about order are evaluated in both operand orders, so  *)
(* restricting the states to monotone triples loses no pair.               *)
(***************************************************************************)
EXTENDS Ulp, TLC

CONSTANTS Fmt, Thr, Triples
VARIABLES x, y, z, tab
vars == <<x, y, z, tab>>

MC_F36 == [p |-> 3, emax |-> 3, w |-> 6]     \* 64 patterns, 56 finite, 6 subnormal
MC_F47 == [p |-> 4, emax |-> 3, w |-> 7]     \* 128 patterns, 112 finite, 14 subnormal
MC_F25 == [p |-> 2, emax |-> 3, w |-> 5]     \* 32 patterns, 28 finite, 2 subnormal
MC_ThrAll3 == 1..4                           \* all thresholds of F36 (MinNormalMag = 4)
MC_ThrSome4 == {1, 4, 5, 8}                  \* F47: all->normal, half, half+1, all->zero
MC_ThrAll2 == 1..2

Fin == FiniteBits(Fmt)
CF == {v \in Fin : v # NegZero(Fmt)}         \* one pattern per finite value
Lattice == {v \in CF : ~IsSubnormal(Fmt, v)} \* the flushed lattice

\* The value order, tabulated once from the exact values (Val, DLt) only:
\* rank[v] = number of distinct finite values strictly below the value of v;
\* lrank = the same on the flushed lattice (zeros and normals among zeros and normals).
\* The table is computed once in Init and carried in the state variable tab (TLC does not
\* cache a constant definition used inside actions; TLCEval tabulates eagerly).
Tables == TLCEval([rank |-> [v \in Fin |-> Cardinality({u \in CF : FLt(Fmt, u, v)})],
                   lrank |-> [v \in {u \in Fin : ~IsSubnormal(Fmt, u)} |->
                                Cardinality({u \in Lattice : FLt(Fmt, u, v)})]])
Rank == tab.rank
LRank == tab.lrank
VLe(a, b) == Rank[a] <= Rank[b]
VLt(a, b) == Rank[a] < Rank[b]
VEq(a, b) == Rank[a] = Rank[b]
Abs(n) == IF n < 0 THEN -n ELSE n
\* number of representable values v with min < v <= max, i.e. steps from one to the other
Steps(a, b) == Abs(Rank[a] - Rank[b])
LSteps(a, b) == Abs(LRank[a] - LRank[b])

\* Two-level state space so that TLC's workers share the work: the initial states fix x,
\* one step chooses y and z.  A state with y = Unset satisfies every law trivially.
\* Triples = FALSE restricts the states to z = y (all pairs, no proper triples).
Unset == <<-1>>                              \* not a pattern
Init == tab = Tables /\ x \in Fin /\ y = Unset /\ z = Unset
Choose == /\ y = Unset
          /\ y' \in {v \in Fin : VLe(x, v)}
          /\ z' \in IF Triples THEN {v \in Fin : VLe(y', v)} ELSE {y'}
          /\ x' = x /\ tab' = tab
Next == Choose
Spec == Init /\ [][Next]_vars
Set == y # Unset

D(a, b) == UlpDist(Fmt, a, b)
Name(bad, n) == IF bad THEN {n} ELSE {}

(******************************** plain mode ********************************)
\* neighbours by value order only
HasSucc(a) == \E v \in CF : Rank[v] = Rank[a] + 1
Succ(a) == CHOOSE v \in CF : Rank[v] = Rank[a] + 1      \* the least value above a
HasPred(a) == \E v \in CF : Rank[v] = Rank[a] - 1
Pred(a) == CHOOSE v \in CF : Rank[v] = Rank[a] - 1      \* the greatest value below a
RECURSIVE KthOK(_, _, _)
\* walking up from a0: the k-th value above a0 is at distance k (k = 1..3), both orders
KthOK(a0, a, k) ==
  IF k > 3 \/ ~HasSucc(a) THEN TRUE
  ELSE LET s == Succ(a)
       IN  /\ D(a0, s) = NFromInt(k) /\ D(s, a0) = NFromInt(k)
           /\ KthOK(a0, s, k + 1)
NextUpIsSucc(a) ==
  /\ IF HasSucc(a) THEN VEq(NextUp(Fmt, a), Succ(a)) ELSE NextUp(Fmt, a) = PosInf(Fmt)
  /\ IF HasPred(a) THEN VEq(NextDown(Fmt, a), Pred(a)) ELSE NextDown(Fmt, a) = NegInf(Fmt)

PlainBad ==
  LET dxy == D(x, y)  dyx == D(y, x)  dxz == D(x, z)  dzx == D(z, x)  dyz == D(y, z)  dzy == D(z, y)
  IN  Name(((dxy = <<>>) # VEq(x, y)) \/ ((dyx = <<>>) # VEq(x, y)) \/ ((dyz = <<>>) # VEq(y, z)), "ZeroIffEqual")
 \cup Name(dxy # dyx \/ dxz # dzx \/ dyz # dzy, "Symmetric")
 \cup Name(NToInt(dxy) # Steps(x, y) \/ NToInt(dzx) # Steps(x, z) \/ NToInt(dyz) # Steps(y, z), "StepsLaw")
 \cup Name(dxz # NAdd(dxy, dyz) \/ dzx # NAdd(dzy, dyx), "Additive")

(******************************** flush mode ********************************)
FlushBad(tp, tn) ==
  LET W(a) == ThresholdWitness(Fmt, NFromInt(tp), NFromInt(tn), a)
      ix == Image(Fmt, x, W(x))  iy == Image(Fmt, y, W(y))  iz == Image(Fmt, z, W(z))
      fxy == FlushDist(Fmt, x, W(x), y, W(y))  fyx == FlushDist(Fmt, y, W(y), x, W(x))
      fyz == FlushDist(Fmt, y, W(y), z, W(z))  fzy == FlushDist(Fmt, z, W(z), y, W(y))
      fxz == FlushDist(Fmt, x, W(x), z, W(z))  fzx == FlushDist(Fmt, z, W(z), x, W(x))
      ImageOK(a, ia) == /\ ~IsSubnormal(Fmt, ia)
                        /\ IsSubnormal(Fmt, a) =>
                              (IsZero(Fmt, ia) \/ ia = MinNormalOfSign(Fmt, SignBit(Fmt, a)))
                        /\ ~IsSubnormal(Fmt, a) => ia = a
  IN  Name(~ImageOK(x, ix) \/ ~ImageOK(y, iy) \/ ~ImageOK(z, iz), "FImageOK")
 \cup Name(~VLe(ix, iy) \/ ~VLe(iy, iz), "FMonotone")
 \cup Name(((fxy = <<>>) # VEq(ix, iy)) \/ ((fyx = <<>>) # VEq(ix, iy)) \/ ((fyz = <<>>) # VEq(iy, iz)), "FZeroIffSameImage")
 \cup Name(fxy # fyx \/ fxz # fzx \/ fyz # fzy, "FSymmetric")
 \cup Name(NToInt(fxy) # LSteps(ix, iy) \/ NToInt(fzx) # LSteps(ix, iz) \/ NToInt(fyz) # LSteps(iy, iz), "FStepsLaw")
 \cup Name(fxz # NAdd(fxy, fyz) \/ fzx # NAdd(fzy, fyx), "FAdditive")

(********************** laws about one value (y = z = x) ********************)
OneBad ==
      Name(~KthOK(x, x, 1), "KthNeighbour")
 \cup Name(~NextUpIsSucc(x), "NextUpIsSucc")
      \* the min normals are the neighbours of zero on the flushed lattice
 \cup Name(~ /\ FDist(Fmt, PosZero(Fmt), MinNormalOfSign(Fmt, 0)) = <<1>>
             /\ FDist(Fmt, NegZero(Fmt), MinNormalOfSign(Fmt, 1)) = <<1>>
             /\ FDist(Fmt, MinNormalOfSign(Fmt, 1), MinNormalOfSign(Fmt, 0)) = <<2>>, "FAdjacent")
      \* what the code does is one of the admitted collapse maps (threshold = half the min normal)
 \cup Name(IsSubnormal(Fmt, x) /\
           CodeWitness(Fmt, x) # ThresholdWitness(Fmt, NPow2(Fmt.p - 2), NPow2(Fmt.p - 2), x), "CodeCollapseAdmitted")
      \* the ulp relation is satisfiable on EVERY finite x: u = 2^Quantum(x) satisfies the identities
 \cup Name(~UlpIdentityOK(Fmt, x, UlpBits(Fmt, x)) \/ UlpBits(Fmt, FNeg(Fmt, x)) # UlpBits(Fmt, x), "UlpSatisfiable")
      \* the frexp/ldexp transcription agrees with it exactly off the subnormals; on the subnormals
      \* it returns zero and breaks the identity (finding F7, confirmed on the real code by U3)
 \cup Name(IF IsSubnormal(Fmt, x)
           THEN ~(CodeUlp(Fmt, x) = PosZero(Fmt) /\ ~UlpIdentityOK(Fmt, x, CodeUlp(Fmt, x)))
           ELSE CodeUlp(Fmt, x) # UlpBits(Fmt, x), "UlpTranscription")

Bad == IF ~Set THEN {}
       ELSE PlainBad
            \cup UNION {FlushBad(t[1], t[2]) : t \in Thr \X Thr}
            \cup (IF y = x /\ z = x THEN OneBad ELSE {})
Laws == IF Bad = {} THEN TRUE ELSE PrintT(<<"LAWS", Bad, x, y, z>>) /\ FALSE

(* non-vacuity: the state space contains values of both signs, several binades, subnormals *)
ASSUME \E a, b \in FiniteBits(Fmt) : SignBit(Fmt, a) = 1 /\ SignBit(Fmt, b) = 0 /\ ~IsZero(Fmt, a) /\ ~IsZero(Fmt, b)
ASSUME \E a, b \in FiniteBits(Fmt) : IsNormal(Fmt, a) /\ IsNormal(Fmt, b) /\ ExpField(Fmt, a) + 1 < ExpField(Fmt, b)
ASSUME \E a \in FiniteBits(Fmt) : IsSubnormal(Fmt, a)
ASSUME \A t \in Thr : t >= 1 /\ NCmp(NFromInt(t), MinNormalMag(Fmt)) <= 0
=============================================================================
