---------------------------- MODULE TargetTables ----------------------------
(***************************************************************************)
(* PLACEHOLDER so that MC_TargetTables parses on its own.  The check never *)
(* uses this file: harness/props/c05.py generates the real TargetTables    *)
(* module from the working tree of the package at check time (next to a    *)
(* copy of MC_TargetTables.tla in its scratch directory).                  *)
(***************************************************************************)
Tables == [python |-> [kinds |-> <<>>, constants |-> <<>>],
           numpy |-> [kinds |-> <<>>, constants |-> <<>>],
           cpp |-> [kinds |-> <<>>, constants |-> <<>>]]
=============================================================================
