----------------------------- MODULE MxcsrHist ------------------------------
(***************************************************************************)
(* Behaviour export for spec->code replay: Mxcsr with a history variable.  *)
(* Every behaviour of exactly MaxLevel replayable steps is printed once    *)
(* (its prefixes are replayed with it).  HwSetFlag is an environment step  *)
(* the driver cannot force, so it is left out of exported behaviours.      *)
(***************************************************************************)
EXTENDS MC_Mxcsr
VARIABLE hist
hvars == <<mxcsr, objs, stack, init, last, hist>>

\* creation order is canonical (object k+1 is created after object k): the
\* identities are interchangeable, so this is a symmetry reduction
CanonCreate(c) == \A d \in Objs : d < c => objs[d].st = "created"

HInit == Init /\ hist = <<>>
HNext == /\ \/ \E c \in Objs, q \in ReqSet : CanonCreate(c) /\ Create(c, q)
            \/ \E c \in Objs : Enter(c) \/ EnterTwice(c)
            \/ \E exc \in BOOLEAN : Exit(exc)
         /\ hist' = Append(hist, last')
HSpec == HInit /\ [][HNext]_hvars
\* the same with body writes (at most two per behaviour: they only matter between an Enter and its Exit)
NBody == Cardinality({i \in 1..Len(hist) : hist[i][1] = "BodyWrite"})
HNextBody == /\ \/ \E c \in Objs, q \in ReqSet : CanonCreate(c) /\ Create(c, q)
                \/ \E c \in Objs : Enter(c)
                \/ \E exc \in BOOLEAN : Exit(exc)
                \/ (NBody < 2 /\ \E k \in BodyWrites : BodyWrite(k))
             /\ hist' = Append(hist, last')
HSpecBody == HInit /\ [][HNextBody]_hvars
HBounded == Len(hist) <= MaxLevel
Emit == (Len(hist) = MaxLevel) => PrintT(<<"H", WordOfReg(init), hist>>)
=============================================================================
