SPECIFICATION Spec
CONSTANTS
  Gen = "kinds"
  NumRandom = 100
  MaxDepth = 4
  Seed = 0
CHECK_DEADLOCK FALSE
