--------------------------- MODULE MC_TargetTables ---------------------------
(***************************************************************************)
(* U1 for C05: the package's template tables against the spec's own.       *)
(* TargetTables.tla is GENERATED at check time from the working tree:      *)
(* every entry of kind_to_target / constant_to_target of the python, numpy *)
(* and cpp targets, its template parsed by the independent parsers into a  *)
(* pattern (operand slots {0}, {1}.. become holes, {type}/{typeof_0} the   *)
(* placeholder __T0__).  Exhaustive over kinds and named constants: no     *)
(* program using the kind is needed.                                       *)
(*   kinds:     the pattern must be one of FAPrinter!Impl(target, kind)    *)
(*              (kinds the spec wild-cards or does not specify are listed, *)
(*              not judged; NotImplemented / callable entries skipped)     *)
(*   constants: instantiated at every float type the target has, the       *)
(*              pattern must be a constant expression of the language      *)
(*              (FAPrinter!RowVal) whose value denotes the named constant  *)
(*              at that type (FAPrinter!NamedBits / ConstDenotes)          *)
(* Prints <<"BAD", target, table, name, detail>> per disagreement.         *)
(***************************************************************************)
EXTENDS FAPrinter, TargetTables

Targets == {"python", "numpy", "cpp"}
TN(t, k) == IF t = "cpp" /\ k = "complex" THEN {"std::complex<__T0__>"} ELSE {"__T0__"}

\* replace every occurrence of __T0__ in a string
RECURSIVE Subst(_, _)
Subst(s, T) ==
  IF Len(s) < 6 THEN s
  ELSE IF SubSeq(s, 1, 6) = "__T0__" THEN T \o Subst(SubSeq(s, 7, Len(s)), T)
  ELSE SubSeq(s, 1, 1) \o Subst(SubSeq(s, 2, Len(s)), T)

\* nested pattern -> flat rows (children first); returns the rows, the pattern's row is the last
RECURSIVE Flatten(_, _, _), FlattenArgs(_, _, _, _, _)
Flatten(p, T, rows) ==
  LET x == FlattenArgs(p, T, 1, rows, <<>>)
  IN  Append(x.rows, [o |-> Subst(p.o, T), a |-> x.ix, s |-> p.s, v |-> p.v])
FlattenArgs(p, T, j, rows, ix) ==
  IF j > Len(p.a) THEN [rows |-> rows, ix |-> ix]
  ELSE LET r == Flatten(p.a[j], T, rows) IN FlattenArgs(p, T, j + 1, r, Append(ix, Len(r)))

FloatTypesOf(t) == CASE t = "python" -> {"float"} [] t = "numpy" -> {"float16", "float32", "float64"} [] t = "cpp" -> {"float32", "float64"}
OneName(t, ty) == CHOOSE nm \in TypeNames(t, ty) : \A other \in TypeNames(t, ty) : Len(nm) <= Len(other) \/ nm = "numpy.float16"
TypeSpelling(t, ty) == CASE t = "numpy" -> "numpy." \o ty [] t = "cpp" -> (IF ty = "float32" THEN "float" ELSE "double") [] OTHER -> "float"

KindVerdict(t, row) ==
  LET k == row[1]
      p == row[2]
  IN  IF p.o \in {"none", "callable"} THEN "skipped"
      ELSE IF k \in WildKinds(t) THEN "wild"
      ELSE IF k \notin AllKinds \/ Impl(t, k, TN(t, k), TN(t, k)) = None THEN "unspecified"
      ELSE IF p \in Impl(t, k, TN(t, k), TN(t, k)) THEN "ok" ELSE "BAD"

ConstVerdict(t, row, ty) ==
  LET name == row[1]
      rows == Flatten(row[2], TypeSpelling(t, ty), <<>>)
      rv == RowVal(t, rows, Len(rows))
      g == FmtNameOf(ty)
      nv == FVal(g, NamedBits(FmtOf(g), name))
  IN  IF name \notin KnownNames THEN "unspecified"
      ELSE IF row[2].o \in {"none", "callable"} THEN "skipped"
      \* C++ converts a constant implicitly where it is used: the table entry is judged after conversion to the type
      \* (an unconverted use in a program is the typing clauses' business)
      ELSE IF ConstDenotes(t, nv, IF t = "cpp" THEN ToFmt(rv, g) ELSE rv) THEN "ok" ELSE "BAD"

VARIABLE n
Init == n = 0
Next == /\ n = 0 /\ n' = 1
        /\ \A t \in Targets :
             /\ \A i \in 1..Len(Tables[t].kinds) :
                  LET v == KindVerdict(t, Tables[t].kinds[i])
                  IN  IF v = "BAD" THEN PrintT(<<"BAD", t, "kind", Tables[t].kinds[i][1], Tables[t].kinds[i][2].o, Tables[t].kinds[i][2].s>>)
                      ELSE IF v \in {"wild", "unspecified"} THEN PrintT(<<"INFO", t, v, Tables[t].kinds[i][1]>>) ELSE TRUE
             /\ \A i \in 1..Len(Tables[t].constants) : \A ty \in FloatTypesOf(t) :
                  LET v == ConstVerdict(t, Tables[t].constants[i], ty)
                  IN  IF v = "BAD" THEN PrintT(<<"BAD", t, "constant", Tables[t].constants[i][1], ty, Tables[t].constants[i][2].o>>)
                      ELSE IF v = "unspecified" THEN PrintT(<<"INFO", t, v, Tables[t].constants[i][1]>>) ELSE TRUE
             /\ PrintT(<<"ROWS", t, Cardinality({i \in 1..Len(Tables[t].kinds) : KindVerdict(t, Tables[t].kinds[i]) \in {"ok", "BAD"}}),
                         Cardinality({i \in 1..Len(Tables[t].constants) : Tables[t].constants[i][1] \in KnownNames}) * Cardinality(FloatTypesOf(t))>>)
Spec == Init /\ [][Next]_n
=============================================================================
