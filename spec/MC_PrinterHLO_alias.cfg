\* MC_PrinterHLO: all connected DAGs with <= 3 nodes x all force_ref subsets, Alias = TRUE (alias: SoundS must be violated)
SPECIFICATION Spec
CONSTANTS
  MaxNodes = 3
  Alias = TRUE
INVARIANT SoundS
CHECK_DEADLOCK FALSE
