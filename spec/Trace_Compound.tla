--------------------------- MODULE Trace_Compound ---------------------------
(***************************************************************************)
(* U3 for C11: every recorded call of the real compound operations of      *)
(* functional_algorithms is judged by the clauses of Compound.tla.         *)
(*                                                                         *)
(* Events (one ndjson line each; floats are raw bit patterns as limb       *)
(* lists, nothing is interpreted by the driver).  Common fields: id, kind, *)
(* fmt ("float16" | "float32" | "float64"); optional cls = TRUE asks for a *)
(* NOTE with the classification of the event (statistics only).            *)
(*  kind "next":   x; rs = list of [v |-> "up" | "down", up |-> BOOLEAN,   *)
(*                 r |-> bits, raised |-> "" | exception name]             *)
(*  kind "pow2":   x; rs = list of [v |-> call style, inv |-> the invert   *)
(*                 argument, b |-> the BOOLEAN returned, raised]           *)
(*  kind "sum3":   x, y, z; s, e, t = the triple add_3sum returned; raised *)
(*  kind "sum4":   x, y, z, w; r; raised       (add_4sum)                  *)
(*  kind "muladd": x, y, z; r; raised          (mul_add)                   *)
(*  kind "dot2":   x, y, z, w; r; raised       (dot2)                      *)
(*  kind "fma":    x, y, z; rs = list of [v |-> variant name, fo |-> its   *)
(*                 fix_overflow option, r |-> bits, raised]: the results   *)
(*                 of several variants of the emulated fused multiply-add  *)
(*                 on the same operands (RN(x*y+z) is evaluated once)      *)
(* A failing clause c of the call / variant v is reported as "c:v" (just c *)
(* for the kinds with one call per event).  An exception inside the        *)
(* documented domain is the clause "raised"; outside nothing is demanded.  *)
(***************************************************************************)
EXTENDS Compound, TraceKit
VARIABLE l

Tagged(s, tag) == {c \o ":" \o tag : c \in s}
Guard(indom, raised, fails) == IF raised # "" THEN (IF indom THEN {"raised"} ELSE {}) ELSE fails
Each(rs, V(_)) == UNION {Tagged(V(rs[k]), rs[k].v) : k \in 1..Len(rs)}

NextV(e) ==
  LET f == FmtOf(e.fmt)
      V(c) == Guard(NextDomain(f, e.x, c.up), c.raised, NextFails(f, e.x, c.up, c.r))
  IN  Each(e.rs, V)
Pow2V(e) ==
  LET f == FmtOf(e.fmt)
      V(c) == Guard(Pow2Domain(f, e.x), c.raised, Pow2Fails(f, e.x, c.inv, c.b))
  IN  Each(e.rs, V)
Sum3V(e) ==
  LET f == FmtOf(e.fmt)
  IN  Guard(QuarterDomain(f, <<e.x, e.y, e.z>>), e.raised, Sum3Fails(f, e.x, e.y, e.z, e.s, e.e, e.t))
Sum4V(e) ==
  LET f == FmtOf(e.fmt)
  IN  Guard(QuarterDomain(f, <<e.x, e.y, e.z, e.w>>), e.raised, Sum4Fails(f, e.x, e.y, e.z, e.w, e.r))
MulAddV(e) ==
  LET f == FmtOf(e.fmt)
  IN  Guard(MulAddDomain(f, e.x, e.y, e.z), e.raised, MulAddFails(f, e.x, e.y, e.z, e.r))
Dot2V(e) ==
  LET f == FmtOf(e.fmt)
  IN  Guard(Dot2Domain(f, e.x, e.y, e.z, e.w), e.raised, Dot2Fails(f, e.x, e.y, e.z, e.w, e.r))
FmaV(e) ==
  LET f == FmtOf(e.fmt)
      fin == AllFinite(f, <<e.x, e.y, e.z>>)
      rn == RN(f, FMAExact(f, e.x, e.y, e.z))
      dom == fin /\ IsFinite(f, RN(f, DMul(Val(f, e.x), Val(f, e.y)))) /\ IsFinite(f, rn)
      V(c) == Guard(dom, c.raised, FmaFailsC(f, e.x, e.y, e.z, dom, rn, c.r, c.fo))
  IN  Each(e.rs, V)

Fails(e) ==
  CASE e.kind = "next" -> NextV(e)
    [] e.kind = "pow2" -> Pow2V(e)
    [] e.kind = "sum3" -> Sum3V(e)
    [] e.kind = "sum4" -> Sum4V(e)
    [] e.kind = "muladd" -> MulAddV(e)
    [] e.kind = "dot2" -> Dot2V(e)
    [] e.kind = "fma" -> FmaV(e)

(* statistics (never verdicts): in / out of the documented domain, class of the exact result,   *)
(* lattice distance of the result from RN(exact) as d0 .. d9 (capped) or d99 (not finite);      *)
(* for kinds with several results the largest distance                                          *)
DLabel(n) == "d" \o ToString(n)
RECURSIVE MaxOf(_)
MaxOf(s) == IF s = <<>> THEN 0 ELSE Max(Head(s), MaxOf(Tail(s)))
Stats(e) ==
  LET f == FmtOf(e.fmt)
  IN
  CASE e.kind = "next" ->
         (IF NextDomain(f, e.x, TRUE) \/ NextDomain(f, e.x, FALSE) THEN {"in"} ELSE {"out"})
    [] e.kind = "pow2" ->
         (IF Pow2Domain(f, e.x) THEN {"in"} ELSE {"out"})
         \cup (IF SigIsPow2(f, e.x) THEN {"ispow2"} ELSE {})
         \cup (IF \E k \in 1..Len(e.rs) : e.rs[k].raised = "" /\ Pow2BelowDoc(f, e.x, e.rs[k].inv, e.rs[k].b)
               THEN {"pow2_below_doc_window"} ELSE {})
    [] e.kind = "sum3" ->
         IF ~QuarterDomain(f, <<e.x, e.y, e.z>>) \/ e.raised # "" THEN {"out"}
         ELSE LET t == <<Val(f, e.x), Val(f, e.y), Val(f, e.z)>>
                  d == DSum(t)
              IN  {"in", DLabel(IF AllFinite(f, <<e.s, e.e, e.t>>)
                                THEN DistCap(f, FAdd(f, e.s, FAdd(f, e.e, e.t)), d) ELSE 99)}
                  \cup ResClass(f, d, t)
    [] e.kind = "sum4" ->
         IF ~QuarterDomain(f, <<e.x, e.y, e.z, e.w>>) \/ e.raised # "" THEN {"out"}
         ELSE LET t == <<Val(f, e.x), Val(f, e.y), Val(f, e.z), Val(f, e.w)>>
                  d == DSum(t)
              IN  {"in", DLabel(DistCap(f, e.r, d))} \cup ResClass(f, d, t)
    [] e.kind = "muladd" ->
         IF ~MulAddDomain(f, e.x, e.y, e.z) \/ e.raised # "" THEN {"out"}
         ELSE LET t == <<DMul(Val(f, e.x), Val(f, e.y)), Val(f, e.z)>>
                  d == DSum(t)
              IN  {"in", DLabel(DistCap(f, e.r, d))} \cup ResClass(f, d, t)
    [] e.kind = "dot2" ->
         IF ~Dot2Domain(f, e.x, e.y, e.z, e.w) \/ e.raised # "" THEN {"out"}
         ELSE LET t == <<DMul(Val(f, e.x), Val(f, e.y)), DMul(Val(f, e.z), Val(f, e.w))>>
                  d == DSum(t)
              IN  {"in", DLabel(DistCap(f, e.r, d))} \cup ResClass(f, d, t)
    [] e.kind = "fma" ->
         IF ~FmaDomain(f, e.x, e.y, e.z) THEN {"out"}
         ELSE LET t == <<DMul(Val(f, e.x), Val(f, e.y)), Val(f, e.z)>>
                  d == DSum(t)
                  ds == [k \in 1..Len(e.rs) |-> IF e.rs[k].raised # "" THEN 99 ELSE DistCap(f, e.rs[k].r, d)] \o <<>>
              IN  {"in", DLabel(MaxOf(ds))} \cup ResClass(f, d, t)
                  \cup (IF ProdTop(f, e.x, e.y) THEN {"prodtop"} ELSE {})
                  \cup (IF NearOverflow(f, e.x, e.y, e.z) THEN {"nearoverflow"} ELSE {})

Init == l = 1
Next == /\ l <= Len(Trace)
        /\ LET e == Trace[l]
           IN  /\ Report(e, Fails(e))
               /\ (IF Has(e, "cls") /\ e.cls THEN PrintT(<<"NOTE", e.id, Stats(e)>>) ELSE TRUE)
        /\ l' = l + 1
Spec == Init /\ [][Next]_l
=============================================================================
