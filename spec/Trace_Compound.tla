--------------------------- MODULE Trace_Compound ---------------------------
(***************************************************************************)
(* U3 for C11: every recorded call of the real compound operations of      *)
(* functional_algorithms is judged by the clauses of Compound.tla.         *)
(*                                                                         *)
(* Events (one ndjson line each; floats are raw bit patterns as limb       *)
(* lists, nothing is interpreted by the driver).  Common fields: id, kind, *)
(* fmt ("float16" | "float32" | "float64"); optional cls = TRUE asks for a *)
(* NOTE with the classification of the event (statistics only).            *)
(*  kind "next":   x; rs = list of [v |-> "up" | "down", up |-> BOOLEAN,   *)
(*                 r |-> bits, raised |-> "" | exception name]             *)
(*  kind "pow2":   x; rs = list of [v |-> call style, inv |-> the invert   *)
(*                 argument, b |-> the BOOLEAN returned, raised]           *)
(*  kind "sum3":   x, y, z; s, e, t = the triple add_3sum returned; raised *)
(*  kind "sum4":   x, y, z, w; r; raised       (add_4sum)                  *)
(*  kind "muladd": x, y, z; r; raised          (mul_add)                   *)
(*  kind "dot2":   x, y, z, w; r; raised       (dot2)                      *)
(*  kind "fma":    x, y, z; rs = list of [v |-> variant name, fo |-> its   *)
(*                 fix_overflow option, r |-> bits, raised]: the results   *)
(*                 of several variants of the emulated fused multiply-add  *)
(*                 on the same operands (RN(x*y+z) is evaluated once)      *)
(* A failing clause c of the call / variant v is reported as "c:v" (just c *)
(* for the kinds with one call per event).  An exception inside the        *)
(* documented domain is the clause "raised"; outside nothing is demanded.  *)
(***************************************************************************)
EXTENDS Compound, TraceKit
VARIABLE l

Tagged(s, tag) == {c \o ":" \o tag : c \in s}
\* an exception inside the documented domain is a failure (indom is evaluated only then)
Guard(indom, raised, fails) == IF raised = "" THEN fails ELSE IF indom THEN {"raised"} ELSE {}
Each(rs, V(_)) == UNION {Tagged(V(rs[k]), rs[k].v) : k \in 1..Len(rs)}
DLabel(n) == "d" \o ToString(n)
RECURSIVE MaxOf(_)
MaxOf(s) == IF s = <<>> THEN 0 ELSE Max(Head(s), MaxOf(Tail(s)))
InOut(b) == IF b THEN {"in"} ELSE {"out"}

(* Each verdict is [fails |-> violated clauses, notes |-> statistics]; notes are computed only when   *)
(* want = TRUE: in / out of the documented domain, class of the exact result (Compound!ResClass), and *)
(* the lattice distance of the result from RN(exact) as d0 .. d9 (capped) or d99 (not finite); for    *)
(* kinds with several results the largest distance.  Statistics are never verdicts.                   *)
NextV(e, want) ==
  LET f == FmtOf(e.fmt)
      x == e.x
      nu == NextUp(f, x)
      nd == NextDown(f, x)
      normal == IsNormal(f, x)
      du == normal /\ IsNormal(f, nu)
      dd == normal /\ IsNormal(f, nd)
      V(c) == LET dom == IF c.up THEN du ELSE dd
              IN  Guard(dom, c.raised, NextFailsC(dom, IF c.up THEN nu ELSE nd, c.r))
  IN  [fails |-> Each(e.rs, V), notes |-> IF want THEN InOut(du \/ dd) ELSE {}]
Pow2V(e, want) ==
  LET f == FmtOf(e.fmt)
      dom == Pow2Domain(f, e.x)
      isp == SigIsPow2(f, e.x)
      V(c) == Guard(dom, c.raised, Pow2FailsC(dom, isp, c.inv, c.b))
      below == Pow2BelowDoc(f, e.x) /\ \E k \in 1..Len(e.rs) : e.rs[k].raised = "" /\ e.rs[k].b # (isp # e.rs[k].inv)
  IN  [fails |-> Each(e.rs, V),
       notes |-> IF want THEN InOut(dom) \cup (IF isp THEN {"ispow2"} ELSE {})
                              \cup (IF below THEN {"pow2_below_doc_window"} ELSE {})
                 ELSE {}]
\* statistics of a result r (distance label) for the exact value DSum(terms) inside the domain
SumStats(f, terms, r, finite) ==
  LET d == DSum(terms)
      rn == RN(f, d)
  IN  {"in", DLabel(IF finite THEN DistCapR(f, r, rn) ELSE 99)} \cup ResClass(f, d, rn, terms)
Sum3V(e, want) ==
  LET f == FmtOf(e.fmt)
      dom == QuarterDomain(f, <<e.x, e.y, e.z>>)
      fin == AllFinite(f, <<e.s, e.e, e.t>>)
  IN  [fails |-> Guard(dom, e.raised, Sum3Fails(f, e.x, e.y, e.z, e.s, e.e, e.t)),
       notes |-> IF ~want THEN {} ELSE IF ~dom \/ e.raised # "" THEN {"out"}
                 ELSE SumStats(f, <<Val(f, e.x), Val(f, e.y), Val(f, e.z)>>,
                               IF fin THEN FAdd(f, e.s, FAdd(f, e.e, e.t)) ELSE <<>>, fin)]
Sum4V(e, want) ==
  LET f == FmtOf(e.fmt)
      dom == QuarterDomain(f, <<e.x, e.y, e.z, e.w>>)
  IN  [fails |-> Guard(dom, e.raised, Sum4Fails(f, e.x, e.y, e.z, e.w, e.r)),
       notes |-> IF ~want THEN {} ELSE IF ~dom \/ e.raised # "" THEN {"out"}
                 ELSE SumStats(f, <<Val(f, e.x), Val(f, e.y), Val(f, e.z), Val(f, e.w)>>, e.r, TRUE)]
MulAddV(e, want) ==
  LET f == FmtOf(e.fmt)
      dom == MulAddDomain(f, e.x, e.y, e.z)
  IN  [fails |-> Guard(dom, e.raised, MulAddFails(f, e.x, e.y, e.z, e.r)),
       notes |-> IF ~want THEN {} ELSE IF ~dom \/ e.raised # "" THEN {"out"}
                 ELSE SumStats(f, <<DMul(Val(f, e.x), Val(f, e.y)), Val(f, e.z)>>, e.r, TRUE)]
Dot2V(e, want) ==
  LET f == FmtOf(e.fmt)
      dom == Dot2Domain(f, e.x, e.y, e.z, e.w)
  IN  [fails |-> Guard(dom, e.raised, Dot2Fails(f, e.x, e.y, e.z, e.w, e.r)),
       notes |-> IF ~want THEN {} ELSE IF ~dom \/ e.raised # "" THEN {"out"}
                 ELSE SumStats(f, <<DMul(Val(f, e.x), Val(f, e.y)), DMul(Val(f, e.z), Val(f, e.w))>>, e.r, TRUE)]
FmaV(e, want) ==
  LET f == FmtOf(e.fmt)
      fin == AllFinite(f, <<e.x, e.y, e.z>>)
      prod == DMul(Val(f, e.x), Val(f, e.y))
      terms == <<prod, Val(f, e.z)>>
      d == DSum(terms)
      rn == RN(f, d)
      dom == fin /\ IsFinite(f, RN(f, prod)) /\ IsFinite(f, rn)
      V(c) == Guard(dom, c.raised, FmaFailsC(f, e.x, e.y, e.z, dom, rn, c.r, c.fo))
      ds == [k \in 1..Len(e.rs) |-> IF e.rs[k].raised # "" THEN 99 ELSE DistCapR(f, e.rs[k].r, rn)] \o <<>>
  IN  [fails |-> Each(e.rs, V),
       notes |-> IF ~want THEN {} ELSE IF ~dom THEN {"out"}
                 ELSE {"in", DLabel(MaxOf(ds))} \cup ResClass(f, d, rn, terms)
                      \cup (IF ProdTop(f, e.x, e.y) THEN {"prodtop"} ELSE {})
                      \cup (IF ResTop(f, e.x, e.y, e.z) THEN {"restop"} ELSE {})]

Verdict(e, want) ==
  CASE e.kind = "next" -> NextV(e, want)
    [] e.kind = "pow2" -> Pow2V(e, want)
    [] e.kind = "sum3" -> Sum3V(e, want)
    [] e.kind = "sum4" -> Sum4V(e, want)
    [] e.kind = "muladd" -> MulAddV(e, want)
    [] e.kind = "dot2" -> Dot2V(e, want)
    [] e.kind = "fma" -> FmaV(e, want)

Init == l = 1
Next == /\ l <= Len(Trace)
        /\ LET e == Trace[l]
               v == Verdict(e, Has(e, "cls") /\ e.cls)
           IN  /\ Report(e, v.fails)
               /\ (IF v.notes = {} THEN TRUE ELSE PrintT(<<"NOTE", e.id, v.notes>>))
        /\ l' = l + 1
Spec == Init /\ [][Next]_l
=============================================================================
