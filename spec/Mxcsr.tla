------------------------------- MODULE Mxcsr --------------------------------
(***************************************************************************)
(* The MXCSR control context of functional_algorithms/fpu.py as a state    *)
(* machine.                                                                *)
(*                                                                         *)
(* The code does three things at three different times, so there are three *)
(* actions: r(FZ=, DAZ=, RN=) creates a context object (Create),           *)
(* __enter__ saves the register and writes the new control word (Enter),   *)
(* __exit__ writes the saved word back (Exit; the same step whether the    *)
(* body returned or raised).  The hardware sets sticky status flags        *)
(* whenever arithmetic runs (HwSetFlag, environment).                      *)
(*                                                                         *)
(* DesiredAt selects WHEN the new control word is computed from the        *)
(* request: "enter" (from the register value found on entry) or "create"   *)
(* (from the register value at creation time - the design of the pinned    *)
(* tree before the fix: commit, kept here so that TLC exhibits the defect: *)
(* see MC_Mxcsr_createtime.cfg, which is expected to violate               *)
(* OnlyRequestedBits).                                                      *)
(***************************************************************************)
EXTENDS Naturals, Integers, Sequences, FiniteSets, TLC

CONSTANTS Objs,        \* identities of context objects
          ReqSet,      \* requests [fz, daz, rn] explored; None = "leave alone"
          InitRegs,    \* possible register values at the start
          DesiredAt,   \* "enter" or "create"
          MaxDepth,    \* nesting bound
          MaxLevel     \* behaviour length bound

None == -1
NoReg == [fz |-> None, daz |-> None, rc |-> None, masks |-> None, flags |-> None]

\* the control part of a register value (everything but the sticky flags)
Ctl(r) == [fz |-> r.fz, daz |-> r.daz, rc |-> r.rc, masks |-> r.masks]

\* what a request asks of a register value: requested fields take the requested
\* value, every other field is left as it is
ApplyReq(q, r) == [fz    |-> IF q.fz = None THEN r.fz ELSE q.fz,
                   daz   |-> IF q.daz = None THEN r.daz ELSE q.daz,
                   rc    |-> IF q.rn = None THEN r.rc ELSE q.rn,
                   masks |-> r.masks,
                   flags |-> r.flags]

\* register value <-> 16-bit word (MXCSR layout: FZ 15, RC 14:13, masks 12:7, DAZ 6, flags 5:0)
RegOfWord(w) == [fz |-> (w \div 32768) % 2, rc |-> (w \div 8192) % 4,
                 masks |-> (w \div 128) % 64, daz |-> (w \div 64) % 2, flags |-> w % 64]
WordOfReg(r) == r.fz * 32768 + r.rc * 8192 + r.masks * 128 + r.daz * 64 + r.flags

\* flag sets as 6-bit integers: a \subseteq b
RECURSIVE BitsSubset(_, _, _)
BitsSubset(a, b, n) == IF n = 0 THEN TRUE
                       ELSE (a % 2 <= b % 2) /\ BitsSubset(a \div 2, b \div 2, n - 1)
FlagsKept(before, after) == BitsSubset(before.flags, after.flags, 6)

VARIABLES mxcsr,   \* the register
          objs,    \* c -> [st, req, desired, saved]
          stack,   \* entered contexts, innermost last: [c, entry]; entry is a ghost copy
                   \* of the register at the matching Enter (the spec's own record)
          init,    \* ghost: register value at the start
          last     \* ghost: name of the last step (for coverage and history export)
vars == <<mxcsr, objs, stack, init, last>>

Fresh == [st |-> "none", req |-> [fz |-> None, daz |-> None, rn |-> None], desired |-> NoReg, saved |-> NoReg]

Init == /\ mxcsr \in InitRegs
        /\ init = mxcsr
        /\ objs = [c \in Objs |-> Fresh]
        /\ stack = <<>>
        /\ last = <<"Init">>

Create(c, q) ==
  /\ objs[c].st = "none"
  /\ objs' = [objs EXCEPT ![c] = [st |-> "created", req |-> q,
                                  desired |-> IF DesiredAt = "create" THEN ApplyReq(q, mxcsr) ELSE NoReg,
                                  saved |-> NoReg]]
  /\ last' = <<"Create", c, q>>
  /\ UNCHANGED <<mxcsr, stack, init>>

Enter(c) ==
  /\ objs[c].st = "created"
  /\ objs[c].saved = NoReg
  /\ Len(stack) < MaxDepth
  /\ mxcsr' = IF DesiredAt = "create" THEN objs[c].desired ELSE ApplyReq(objs[c].req, mxcsr)
  /\ objs' = [objs EXCEPT ![c].saved = mxcsr]
  /\ stack' = Append(stack, [c |-> c, entry |-> mxcsr])
  /\ last' = <<"Enter", c>>
  /\ UNCHANGED init

\* entering an object that is already active: the code raises AssertionError before
\* touching anything
EnterTwice(c) ==
  /\ objs[c].st = "created"
  /\ objs[c].saved # NoReg
  /\ last' = <<"EnterTwice", c>>
  /\ UNCHANGED <<mxcsr, objs, stack, init>>

\* leaving the innermost context, normally (exc = FALSE) or because an exception
\* propagates through it (exc = TRUE)
Exit(exc) ==
  /\ stack # <<>>
  /\ LET c == stack[Len(stack)].c
     IN  /\ mxcsr' = objs[c].saved
         /\ objs' = [objs EXCEPT ![c].saved = NoReg]
  /\ stack' = SubSeq(stack, 1, Len(stack) - 1)
  /\ last' = <<"Exit", exc>>
  /\ UNCHANGED init

\* environment: arithmetic raises a sticky status flag
HwSetFlag(b) ==
  /\ (mxcsr.flags \div b) % 2 = 0
  /\ mxcsr' = [mxcsr EXCEPT !.flags = @ + b]
  /\ last' = <<"HwSetFlag", b>>
  /\ UNCHANGED <<objs, stack, init>>

\* the BODY of a context writes the register itself (another library, inline assembly, fpu.set_mxcsr):
\* it toggles a control field or raises a status flag.  Not part of Next (the configurations that explore
\* it use NextBody); the statement "on exit the register holds exactly the value it had on entry" must
\* hold whatever the body did.
BodyWrites == {"fz", "daz", "rc", "flag"}
BodyWrite(k) ==
  /\ stack # <<>>
  /\ mxcsr' = CASE k = "fz" -> [mxcsr EXCEPT !.fz = 1 - @]
                 [] k = "daz" -> [mxcsr EXCEPT !.daz = 1 - @]
                 [] k = "rc" -> [mxcsr EXCEPT !.rc = (@ + 1) % 4]
                 [] k = "flag" -> [mxcsr EXCEPT !.flags = IF (@ \div 32) % 2 = 0 THEN @ + 32 ELSE @]
  /\ last' = <<"BodyWrite", k>>
  /\ UNCHANGED <<objs, stack, init>>

Next == \/ \E c \in Objs, q \in ReqSet : Create(c, q)
        \/ \E c \in Objs : Enter(c) \/ EnterTwice(c)
        \/ \E exc \in BOOLEAN : Exit(exc)
        \/ HwSetFlag(1)

Spec == Init /\ [][Next]_vars
NextBody == Next \/ \E k \in BodyWrites : BodyWrite(k)
SpecBody == Init /\ [][NextBody]_vars

Bounded == TLCGet("level") <= MaxLevel

(*************************** the property C18 ******************************)
TypeOK == /\ mxcsr.fz \in {0, 1} /\ mxcsr.daz \in {0, 1} /\ mxcsr.rc \in 0..3
          /\ Len(stack) <= MaxDepth

\* entering changes only the requested control fields
OnlyRequestedBits ==
  [][\A c \in Objs : (Len(stack') = Len(stack) + 1 /\ stack'[Len(stack')].c = c)
        => Ctl(mxcsr') = Ctl(ApplyReq(objs[c].req, mxcsr))]_vars

\* on exit the register holds what it held on entry (sticky flags may only have been kept)
ExitRestores ==
  [][Len(stack') = Len(stack) - 1
        => /\ Ctl(mxcsr') = Ctl(stack[Len(stack)].entry)
           /\ mxcsr'.flags = stack[Len(stack)].entry.flags]_vars

\* the spec's ghost copy and the object's saved slot agree
SavedIsEntry == \A i \in 1..Len(stack) : objs[stack[i].c].saved = stack[i].entry

\* balanced use is the identity on the control word
BalancedIsIdentity == stack = <<>> => Ctl(mxcsr) = Ctl(init)

\* nothing but the innermost requests is visible inside: the control word inside a nest
\* equals the initial word with the requests of the stack applied outermost first
RECURSIVE Compose(_, _)
Compose(r, i) == IF i > Len(stack) THEN r ELSE Compose(ApplyReq(objs[stack[i].c].req, r), i + 1)
NestIsComposition == Ctl(mxcsr) = Ctl(Compose(init, 1))
=============================================================================
