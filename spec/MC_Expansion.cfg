\* U1 of C12 (quick): toy format T3 = [p=3, emax=3, w=6]; all lists of 1..3 finite patterns, first item non-negative (sign symmetry)
SPECIFICATION Spec
CONSTANTS
  Fmt <- T3
  MaxLen = 3
  FirstMax = 27
INVARIANTS TwoSumExact IdealIsSafe FastIsSafe Functional ValueKept TwoPasses ClausesHold Witnesses
CHECK_DEADLOCK FALSE
