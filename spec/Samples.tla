------------------------------ MODULE Samples ------------------------------
(***************************************************************************)
(* C19 - the sample generators of functional_algorithms.utils              *)
(* (real_samples and its Cartesian products) stated over the ordinals of   *)
(* IEEE.tla.  A datum is a raw bit pattern (BigInt natural); Ord(f, x) is  *)
(* its signed position on the float lattice (+-0 -> 0).                    *)
(*                                                                         *)
(* Arguments of one real_samples call: a record a with                     *)
(*   size, hasmin, min, hasmax, max        (min/max bit patterns)          *)
(*   inf, zero, sub, nan, huge, nonneg, unique   (the include_* flags)     *)
(* and the format f.  The returned array is a sequence of bit patterns; it *)
(* is examined in chunks (<= 2000 elements, consecutive chunks share one   *)
(* element): ChunkSum gives the per-chunk facts, RsFails combines the      *)
(* chunk summaries into the verdict on the call.                           *)
(*                                                                         *)
(* Clauses (one per phrase of the property statement):                     *)
(*   error      no exception for size >= MinSize (documented minimum 6),   *)
(*              finite bounds, min <= max                                  *)
(*   dtype      the array has the requested dtype                          *)
(*   order      strictly increasing by Ord (NaN only as the tail)          *)
(*   bounds     every non-NaN element lies within the adjusted bounds      *)
(*   has_lo, has_hi, has_minpos, has_zero, has_inf, has_huge, has_nan      *)
(*              the bounds and the requested special values are present    *)
(*   subnormal, nan   not present unless requested                         *)
(*   uniform    gaps (in ULP = ordinal distance) between consecutive       *)
(*              finite same-sign non-special samples differ by <= 1        *)
(*                                                                         *)
(* Leniencies (the statement or the docstring is silent or ambiguous):     *)
(*  L1 a subnormal bound with subnormals excluded may be moved to zero OR  *)
(*     to the smallest normal of its sign: elements must lie within the    *)
(*     outward choice, the array must contain either choice.               *)
(*  L2 unique=False: repeated values are allowed (docstring), so order is  *)
(*     "nondecreasing"; on the default path (no user bounds) the order of  *)
(*     the concatenated parts is unspecified: order/uniform are waived.    *)
(*  L3 include_huge is required only from size >= 10 (the docstring names  *)
(*     no threshold; the package's own tests expect it from size 9/10).    *)
(*  L4 with user bounds include_infinity/include_nan/include_huge/         *)
(*     nonnegative are "silently ignored" (docstring): nothing is required *)
(*     of them; every non-NaN element must lie within the bounds; NaN is   *)
(*     tolerated whenever include_nan is set.  include_zero is required    *)
(*     only when zero lies strictly between the bounds.                    *)
(*  L5 uniformity is judged per sign (negative and positive samples        *)
(*     separately) and gaps adjacent to a special value (zero, infinity,   *)
(*     next-to-largest) or to a bound are excluded.                        *)
(*  L6 -inf is tolerated with nonnegative=True when infinities are         *)
(*     requested ("finite samples are all non-negative").                  *)
(*  L7 the sign of a zero sample is not observed (Ord(-0) = Ord(+0)).      *)
(*  L8 inverted bounds (min > max by value, incl. a defaulted bound) and   *)
(*     non-finite bounds are outside the domain (ValueError is documented  *)
(*     behaviour for the former); sizes < 6 are outside the domain (F10).  *)
(***************************************************************************)
EXTENDS IEEE, FiniteSets

MinSize == 6
HugeMinSize == 10

ZP(m) == ZMk(0, m)
ZN(m) == ZMk(1, m)
RangeOf(s) == {s[i] : i \in DOMAIN s}

MinPosMag(f, a) == IF a.sub THEN NOne ELSE MinNormalMag(f)
HugeMag(f) == NSub(LargestMag(f), NOne)
User(a) == a.hasmin \/ a.hasmax
SubMag(f, m) == m # <<>> /\ NLt(m, MinNormalMag(f))

\* everything derived from the arguments alone (bound once per event)
Ctx(f, a) ==
  LET mp == MinPosMag(f, a)
      mn == MinNormalMag(f)
      lg == LargestMag(f)
      user == User(a)
      \* documented defaults of a missing bound
      lo0 == IF a.hasmin THEN Ord(f, a.min)
             ELSE IF a.hasmax /\ ZSign(Ord(f, a.max)) < 0 THEN ZN(lg)
             ELSE ZP(mp)
      hi0 == IF a.hasmax THEN Ord(f, a.max)
             ELSE IF ZSign(lo0) < 0 THEN ZN(mp) ELSE ZP(lg)
      exl == user /\ ~a.sub /\ SubMag(f, lo0[2])
      exh == user /\ ~a.sub /\ SubMag(f, hi0[2])
      loOut == IF exl THEN (IF lo0[1] = 1 THEN ZN(mn) ELSE ZZero) ELSE lo0
      loIn == IF exl THEN (IF lo0[1] = 1 THEN ZZero ELSE ZP(mn)) ELSE lo0
      hiOut == IF exh THEN (IF hi0[1] = 1 THEN ZZero ELSE ZP(mn)) ELSE hi0
      hiIn == IF exh THEN (IF hi0[1] = 1 THEN ZN(mn) ELSE ZZero) ELSE hi0
  IN  [user |-> user, mp |-> mp, mn |-> mn, lg |-> lg, lo0 |-> lo0, hi0 |-> hi0,
       exl |-> exl, exh |-> exh, infm |-> InfMag(f), hugem |-> HugeMag(f),
       bset |-> {lo0, hi0, loOut, loIn, hiOut, hiIn},
       \* L1: outward / inward placement of an excluded subnormal bound
       loOut |-> loOut, loIn |-> loIn, hiOut |-> hiOut, hiIn |-> hiIn,
       finite |-> (a.hasmin => IsFinite(f, a.min)) /\ (a.hasmax => IsFinite(f, a.max))]

Domain(f, a, c) == a.size >= MinSize /\ c.finite /\ ZLe(c.lo0, c.hi0)

\* which code path a call exercises (only used to label failures)
PathTag(f, a, c) ==
  IF ~c.user THEN "path=default"
  ELSE IF \/ (a.hasmin /\ IsZero(f, a.min) /\ SignBit(f, a.min) = 1 /\ ZSign(c.hiOut) > 0)
          \/ (a.hasmax /\ IsZero(f, a.max) /\ SignBit(f, a.max) = 0 /\ ZSign(c.loOut) < 0)
       THEN "path=signed_zero_bound"
  ELSE IF ZSign(c.loOut) < 0 /\ ZSign(c.hiOut) > 0
       THEN (IF c.exl \/ c.exh THEN "path=straddle_subnormal_bound" ELSE "path=straddle")
  ELSE "path=same_sign"

(*************************** one chunk *************************************)
GEmpty == [has |-> FALSE, lo |-> <<>>, hi |-> <<>>]
GOne(d) == [has |-> TRUE, lo |-> d, hi |-> d]
GMerge(p, q) == IF ~p.has THEN q ELSE IF ~q.has THEN p
                ELSE [has |-> TRUE, lo |-> IF NLe(p.lo, q.lo) THEN p.lo ELSE q.lo,
                                    hi |-> IF NLe(p.hi, q.hi) THEN q.hi ELSE p.hi]
RECURSIVE GFold(_, _, _)
GFold(G, lo, hi) ==
  IF lo > hi THEN <<GEmpty, GEmpty>>
  ELSE IF lo = hi THEN G[lo]
  ELSE LET m == (lo + hi) \div 2
           L == GFold(G, lo, m)
           R == GFold(G, m + 1, hi)
       IN  <<GMerge(L[1], R[1]), GMerge(L[2], R[2])>>

\* classification of an element from its ordinal z = <<sign, magnitude>> (same as IEEE!IsNaN etc.)
ZIsNaN(c, z) == NCmp(z[2], c.infm) > 0
ZIsInf(c, z) == z[2] = c.infm
ZIsSub(c, z) == z[2] # <<>> /\ NLt(z[2], c.mn)

InBounds(a, c, z) ==
  IF c.user THEN ZLe(c.loOut, z) /\ ZLe(z, c.hiOut)
  ELSE IF ZIsInf(c, z) THEN a.inf
  ELSE ~(a.nonneg /\ ZSign(z) < 0)

ElemBad(a, c, z) ==
  IF ZIsNaN(c, z) THEN (IF a.nan THEN {} ELSE {"nan"})
  ELSE (IF ZIsSub(c, z) /\ ~a.sub THEN {"subnormal"} ELSE {})
       \cup (IF InBounds(a, c, z) THEN {} ELSE {"bounds"})

\* L5: values next to which a gap is not expected to be regular
Special(a, c, z) ==
  \/ z[2] = <<>>
  \/ ~NLt(z[2], c.infm)
  \/ (c.user /\ z \in c.bset)
  \/ (~c.user /\ (z[2] = c.lg \/ z[2] = c.mp \/ (a.huge /\ z[2] = c.hugem)))

OrderWaived(a, c) == ~a.unique /\ ~c.user

ChunkSum(f, a, c, xs) ==
  LET n == Len(xs)
      os == [i \in 1..n |-> Ord(f, xs[i])] \o <<>>
      isnan == [i \in 1..n |-> ZIsNaN(c, os[i])] \o <<>>
      sp == [i \in 1..n |-> Special(a, c, os[i])] \o <<>>
      PairBad(i) ==
        IF isnan[i] THEN ~isnan[i + 1]
        ELSE IF isnan[i + 1] THEN FALSE
        ELSE IF a.unique THEN ~ZLt(os[i], os[i + 1]) ELSE ~ZLe(os[i], os[i + 1])
      Leaf(i) ==
        IF ~sp[i] /\ ~sp[i + 1] /\ os[i][1] = os[i + 1][1]
        THEN LET d == GOne(ZSub(os[i + 1], os[i])[2])
             IN  IF os[i][1] = 1 THEN <<d, GEmpty>> ELSE <<GEmpty, d>>
        ELSE <<GEmpty, GEmpty>>
      G == [i \in 1..(n - 1) |-> Leaf(i)] \o <<>>
      fold == GFold(G, 1, n - 1)
      S == {os[i] : i \in {j \in 1..n : ~isnan[j]}}
      T == [lo |-> {c.loOut, c.loIn}, hi |-> {c.hiOut, c.hiIn}, zero |-> {ZZero},
            pinf |-> {ZP(c.infm)}, ninf |-> {ZN(c.infm)},
            huge |-> {ZP(c.hugem)}, nhuge |-> {ZN(c.hugem)},
            large |-> {ZP(c.lg)}, nlarge |-> {ZN(c.lg)},
            minpos |-> {ZP(c.mp)}, nminpos |-> {ZN(c.mp)}]
      elem == UNION {ElemBad(a, c, os[i]) : i \in 1..n}
      order == IF ~OrderWaived(a, c) /\ (\E i \in 1..(n - 1) : PairBad(i)) THEN {"order"} ELSE {}
  IN  [n |-> n,
       first |-> IF n = 0 THEN <<>> ELSE xs[1],
       last |-> IF n = 0 THEN <<>> ELSE xs[n],
       gn |-> fold[1], gp |-> fold[2],
       seen |-> {t \in DOMAIN T : T[t] \cap S # {}} \cup (IF \E i \in 1..n : isnan[i] THEN {"nan"} ELSE {}),
       bad |-> elem \cup order]

(*************************** the whole call ********************************)
RECURSIVE SumN(_, _)
SumN(sums, k) == IF k = 0 THEN 0 ELSE sums[k].n + SumN(sums, k - 1)
RECURSIVE FoldG(_, _, _)
FoldG(sums, k, neg) == IF k = 0 THEN GEmpty
                       ELSE GMerge(IF neg THEN sums[k].gn ELSE sums[k].gp, FoldG(sums, k - 1, neg))

Linked(sums, n) ==
  /\ Len(sums) >= 1
  /\ SumN(sums, Len(sums)) - (Len(sums) - 1) = n
  /\ \A k \in 1..(Len(sums) - 1) : sums[k].n >= 2 /\ sums[k].last = sums[k + 1].first
  /\ (Len(sums) > 1 => sums[Len(sums)].n >= 2)

NonUniform(g) == g.has /\ NLt(NAdd(g.lo, NOne), g.hi)

\* e: the call event (arguments, raised, dtype, n); sums: chunk summaries with seen as a set
RsFails(f, a, c, raised, dtype, fmtname, n, sums) ==
  IF ~Domain(f, a, c) THEN {}
  ELSE IF raised # "" THEN {"error"}
  ELSE
  LET seen == UNION {sums[k].seen : k \in 1..Len(sums)}
      gn == FoldG(sums, Len(sums), TRUE)
      gp == FoldG(sums, Len(sums), FALSE)
      Miss(t) == t \notin seen
      both(t, nt) == Miss(t) \/ (~a.nonneg /\ Miss(nt))
      strad == ZSign(c.loOut) < 0 /\ ZSign(c.hiOut) > 0
      fails ==
        (IF dtype # fmtname THEN {"dtype"} ELSE {})
        \cup (IF ~Linked(sums, n) THEN {"binding:link"} ELSE {})
        \cup (IF c.user
              THEN (IF Miss("lo") THEN {"has_lo"} ELSE {})
                   \cup (IF Miss("hi") THEN {"has_hi"} ELSE {})
                   \cup (IF a.zero /\ strad /\ Miss("zero") THEN {"has_zero"} ELSE {})
              ELSE (IF (IF a.nonneg THEN Miss("minpos") ELSE Miss("nlarge")) THEN {"has_lo"} ELSE {})
                   \cup (IF Miss("large") THEN {"has_hi"} ELSE {})
                   \cup (IF both("minpos", "nminpos") THEN {"has_minpos"} ELSE {})
                   \cup (IF a.zero /\ Miss("zero") THEN {"has_zero"} ELSE {})
                   \cup (IF a.inf /\ both("pinf", "ninf") THEN {"has_inf"} ELSE {})
                   \cup (IF a.huge /\ a.size >= HugeMinSize /\ both("huge", "nhuge") THEN {"has_huge"} ELSE {})
                   \cup (IF a.nan /\ Miss("nan") THEN {"has_nan"} ELSE {}))
        \cup (IF ~OrderWaived(a, c) /\ (NonUniform(gn) \/ NonUniform(gp)) THEN {"uniform"} ELSE {})
  IN  fails

\* element-level verdict of one chunk (domain-guarded)
ChunkFails(f, a, c, sum) == IF ~Domain(f, a, c) THEN {} ELSE sum.bad

(*************************** Cartesian products ****************************)
EqVal(f, x, y) == IF IsNaN(f, x) \/ IsNaN(f, y) THEN IsNaN(f, x) /\ IsNaN(f, y)
                  ELSE Ord(f, x) = Ord(f, y)
ComplexName(fmtname) == CASE fmtname = "float32" -> "complex64" [] fmtname = "float64" -> "complex128"
                          [] OTHER -> "unsupported"

\* kind "pair":   arrs = <<s1, s2>>,       outputs r1, r2 (flat, length n1*n2):
\*                r1[k] = s1[k mod n1], r2[k] = s2[k div n1]          cell <<k, v1, v2>>
\* kind "triple": arrs = <<s1, s2, s3>>,   r_[ (i*n2 + j)*n3 + l ] = (s1[i], s2[j], s3[l])
\*                                                                     cell <<k, v1, v2, v3>>
\* kind "complex": arrs = <<re, im>>,      r[row, col] = re[col] + i im[row], shape (n_im, n_re)
\*                                                                     cell <<row, col, vre, vim>>
\* kind "cpair":  arrs = <<re1, im1, re2, im2>>, shape (h1*h2, w1*w2), h = |im|, w = |re|,
\*                r1[row, col] = c1[row mod h1, col mod w1], r2[row, col] = c2[row div h1, col div w1]
\*                                                      cell <<row, col, v1re, v1im, v2re, v2im>>
\* (0-based positions; this is the layout the package's own tests pin down)
ProdShapeOk(kind, L, shapes) ==
  CASE kind = "pair" -> shapes = <<<<L[1] * L[2]>>, <<L[1] * L[2]>>>>
    [] kind = "triple" -> LET t == L[1] * L[2] * L[3] IN shapes = <<<<t>>, <<t>>, <<t>>>>
    [] kind = "complex" -> shapes = <<<<L[2], L[1]>>>>
    [] kind = "cpair" -> LET s == <<L[2] * L[4], L[1] * L[3]>> IN shapes = <<s, s>>

ProdCellOk(f, kind, A, L, cell) ==
  CASE kind = "pair" ->
         /\ cell[1] \in 0..(L[1] * L[2] - 1)
         /\ EqVal(f, cell[2], A[1][(cell[1] % L[1]) + 1])
         /\ EqVal(f, cell[3], A[2][(cell[1] \div L[1]) + 1])
    [] kind = "triple" ->
         /\ cell[1] \in 0..(L[1] * L[2] * L[3] - 1)
         /\ EqVal(f, cell[2], A[1][(cell[1] \div (L[2] * L[3])) + 1])
         /\ EqVal(f, cell[3], A[2][((cell[1] \div L[3]) % L[2]) + 1])
         /\ EqVal(f, cell[4], A[3][(cell[1] % L[3]) + 1])
    [] kind = "complex" ->
         /\ cell[1] \in 0..(L[2] - 1) /\ cell[2] \in 0..(L[1] - 1)
         /\ EqVal(f, cell[3], A[1][cell[2] + 1])
         /\ EqVal(f, cell[4], A[2][cell[1] + 1])
    [] kind = "cpair" ->
         /\ cell[1] \in 0..(L[2] * L[4] - 1) /\ cell[2] \in 0..(L[1] * L[3] - 1)
         /\ EqVal(f, cell[3], A[1][(cell[2] % L[1]) + 1])
         /\ EqVal(f, cell[4], A[2][(cell[1] % L[2]) + 1])
         /\ EqVal(f, cell[5], A[3][(cell[2] \div L[1]) + 1])
         /\ EqVal(f, cell[6], A[4][(cell[1] \div L[2]) + 1])

ProdPos(kind, cell) == IF kind \in {"pair", "triple"} THEN <<cell[1]>> ELSE <<cell[1], cell[2]>>
ProdTotal(kind, L) ==
  CASE kind = "pair" -> L[1] * L[2] [] kind = "triple" -> L[1] * L[2] * L[3]
    [] kind = "complex" -> L[1] * L[2] [] kind = "cpair" -> L[1] * L[2] * L[3] * L[4]

\* e: kind, fmt, arrs, shapes, dtypes, cells, whole, raised
ProdFails(e) ==
  LET f == FmtOf(e.fmt)
      A == e.arrs
      L == [i \in 1..Len(A) |-> Len(A[i])]
      cplx == e.kind \in {"complex", "cpair"}
      want == IF cplx THEN ComplexName(e.fmt) ELSE e.fmt
      indom == (\A i \in 1..Len(A) : L[i] >= 1) /\ (cplx => e.fmt \in {"float32", "float64"})
  IN  IF ~indom THEN {}
      ELSE IF e.raised # "" THEN {"prod_error"}
      ELSE (IF \E i \in 1..Len(e.dtypes) : e.dtypes[i] # want THEN {"prod_dtype"} ELSE {})
      \cup (IF ~ProdShapeOk(e.kind, L, e.shapes) THEN {"prod_shape"} ELSE {})
      \cup (IF \E i \in 1..Len(e.cells) : ~ProdCellOk(f, e.kind, A, L, e.cells[i]) THEN {"prod_cell"} ELSE {})
      \cup (IF e.whole /\ ProdShapeOk(e.kind, L, e.shapes)      \* (a wrong shape is the code's failure, reported above)
               /\ Cardinality({ProdPos(e.kind, e.cells[i]) : i \in 1..Len(e.cells)}) # ProdTotal(e.kind, L)
            THEN {"binding:prod_coverage"} ELSE {})

(*************************** transcription *********************************)
(* The integer-view stepping of real_samples, re-stated on ordinals (with   *)
(* the split at zero repaired as in proposed_fixes/C19_*.patch).  It is     *)
(* model-checked against the clauses above on a toy format (MC_Samples) to  *)
(* show they are satisfiable, and compared with recorded arrays of small    *)
(* calls: a difference is reported as model DRIFT, never as a violation.    *)
RECURSIVE NDivSmallFrom(_, _, _, _)
NDivSmallFrom(x, d, i, rem) ==
  IF i = 0 THEN <<>>
  ELSE LET cur == rem * B + x[i]
       IN  NDivSmallFrom(x, d, i - 1, cur % d) \o <<cur \div d>>
NDivSmall(x, d) == NNorm(NDivSmallFrom(x, d, Len(x), 0))      \* 1 <= d <= 65535

RECURSIVE FloorQ(_, _, _, _)
FloorQ(x, y, lo, hi) ==                   \* largest q in lo..hi with q*y <= x  (y > 0)
  IF lo >= hi THEN lo
  ELSE LET m == (lo + hi + 1) \div 2
       IN  IF NLe(NMul(NFromInt(m), y), x) THEN FloorQ(x, y, m, hi) ELSE FloorQ(x, y, lo, m - 1)

\* magnitudes start + floor(k*(end-start)/(num-1)), k = 0..num-1  (num >= 2, start <= end)
Stepping(start, end, num) ==
  LET step == NSub(end, start)
  IN  [k \in 1..num |-> NAdd(start, NDivSmall(NMul(NFromInt(k - 1), step), num - 1))]
Flush(f, a, m) == IF ~a.sub /\ SubMag(f, m) THEN <<>> ELSE m
Rev(s) == [i \in 1..Len(s) |-> s[Len(s) + 1 - i]]

\* nondecreasing ordinals from lo to hi, both of one sign (neg: lo, hi are negative or zero)
GenSame(f, a, lo, hi, num, neg) ==
  IF ZCmp(lo, hi) = 0 THEN <<lo>>
  ELSE IF ~neg THEN LET s == Stepping(lo[2], hi[2], num) IN [k \in 1..num |-> ZP(Flush(f, a, s[k]))]
  ELSE LET s == Stepping(hi[2], lo[2], num) IN Rev([k \in 1..num |-> ZN(Flush(f, a, s[k]))])

RECURSIVE Dedup(_)
Dedup(s) == IF Len(s) <= 1 THEN s
            ELSE IF s[1] = s[2] THEN Dedup(Tail(s)) ELSE <<s[1]>> \o Dedup(Tail(s))

NaNItem == <<2, <<>>>>
GenUser(f, a, c) ==
  LET lo == c.loOut
      hi == c.hiOut
      num == a.size
      r == IF ZCmp(lo, hi) = 0 THEN <<lo>>
           ELSE IF ZSign(lo) >= 0 THEN GenSame(f, a, lo, hi, num, FALSE)
           ELSE IF ZSign(hi) <= 0 THEN GenSame(f, a, lo, hi, num, TRUE)
           ELSE LET nd == NSub(lo[2], c.mp)
                    pd == NSub(hi[2], c.mp)
                    tot == IF NAdd(nd, pd) = <<>> THEN NOne ELSE NAdd(nd, pd)
                    zn == IF a.zero THEN 1 ELSE 0
                    nmin == IF nd = <<>> THEN 1 ELSE 2
                    pmin == IF pd = <<>> THEN 1 ELSE 2
                    nn0 == FloorQ(NMul(nd, NFromInt(num)), tot, 0, num)
                    nn == Min(Max(nn0, nmin), num - zn - pmin)
                    pn == num - nn - zn
                IN  \* the two sides are generated with unique=True whatever the caller asked
                    Dedup(GenSame(f, a, lo, ZN(c.mp), nn, TRUE))
                    \o (IF a.zero THEN <<ZZero>> ELSE <<>>)
                    \o Dedup(GenSame(f, a, ZP(c.mp), hi, pn, FALSE))
  IN  IF a.unique THEN Dedup(r) ELSE r

GenDefault(f, a, c) ==
  LET num == (IF a.nonneg THEN a.size ELSE a.size \div 2) - (IF a.inf THEN 1 ELSE 0)
      s0 == Stepping(c.mp, c.lg, num)
      fp == [k \in 1..num |-> IF k = num THEN ZP(c.lg)
                              ELSE IF a.huge /\ num > 3 /\ k = num - 1 THEN ZP(HugeMag(f))
                              ELSE ZP(s0[k])]
      ng == Rev([k \in 1..num |-> ZNeg(fp[k])])
      z == IF a.zero THEN <<ZZero>> ELSE <<>>
      pinf == IF a.inf THEN <<ZP(InfMag(f))>> ELSE <<>>
      ninf == IF a.inf /\ ~a.nonneg THEN <<ZN(InfMag(f))>> ELSE <<>>
      nan == IF a.nan THEN <<NaNItem>> ELSE <<>>
  IN  IF a.unique THEN Dedup(ninf \o (IF a.nonneg THEN <<>> ELSE ng) \o z \o fp \o pinf) \o nan
      ELSE (IF a.nonneg THEN <<>> ELSE ng) \o fp \o ninf \o z \o pinf \o nan

\* sequence of items (ordinals, NaNItem); requires Domain and size <= 65536
Gen(f, a, c) == IF c.user THEN GenUser(f, a, c) ELSE GenDefault(f, a, c)
ItemBits(f, it) == IF it = NaNItem THEN NAdd(InfMag(f), NOne) ELSE FromOrd(f, it)
GenBits(f, a, c) == LET g == Gen(f, a, c) IN [i \in 1..Len(g) |-> ItemBits(f, g[i])]

\* the recorded array, as a set of items, equals the transcription's
SameAsGen(f, a, c, xs) ==
  {IF IsNaN(f, xs[i]) THEN NaNItem ELSE Ord(f, xs[i]) : i \in 1..Len(xs)} = RangeOf(Gen(f, a, c))
=============================================================================
