\* exhaustive over every entry of the stablehlo / xla_client kind_to_target and constant_to_target tables (generated TargetTablesHLO.tla)
SPECIFICATION Spec
CHECK_DEADLOCK FALSE
