----------------------------- MODULE MC_Context -----------------------------
(* Model-checking instances of FAContext. *)
EXTENDS FAContext

V(pt, num, neg, obj) == [pt |-> pt, num |-> num, neg |-> neg, obj |-> obj, nan |-> (num = "nan")]
\* 0.0, -0.0, 0, 1, 1.0, True, numpy.float32(1), numpy.float64(1), numpy.float32(-0.0), two NaN objects, "largest", 0.5
MC_Values == {V("float", "0", 0, 0), V("float", "0", 1, 0), V("int", "0", 0, 0), V("int", "1", 0, 0),
              V("float", "1", 0, 0), V("bool", "1", 0, 0), V("float32", "1", 0, 0), V("float64", "1", 0, 0),
              V("float32", "0", 1, 0), V("float32", "0", 0, 0),
              V("float", "nan", 0, 1), V("float", "nan", 0, 2), V("str", "largest", 0, 0), V("float", "half", 0, 0)}
MC_ValuesSmall == {V("float", "0", 0, 0), V("float", "0", 1, 0), V("int", "1", 0, 0), V("float", "1", 0, 0),
                   V("bool", "1", 0, 0)}
MC_Symbols == {[name |-> "x", ty |-> "float32"], [name |-> "x", ty |-> "float64"], [name |-> "y", ty |-> "float64"]}
MC_Symbols2 == {[name |-> "x", ty |-> "float32"], [name |-> "y", ty |-> "float64"]}
MC_ValuesSim == MC_Values \cup {V("complex", "0", 0, 0), V("complex", "0", 1, 0), V("complex", "0", 2, 0), V("complex", "1", 0, 0),
                 V("float64", "0", 1, 0), V("float64", "0", 0, 0), V("float16", "1", 0, 0), V("int", "two", 0, 0),
                 V("float", "two", 0, 0), V("float", "m1", 0, 0), V("bool", "0", 0, 0), V("float32", "nan", 0, 3),
                 V("str", "smallest", 0, 0), V("str", "posinf", 0, 0)}
MC_SymbolsSim == MC_Symbols \cup {[name |-> "y", ty |-> "float32"], [name |-> "z", ty |-> "complex64"], [name |-> "b", ty |-> "boolean"]}
MC_KindsSim == [negative |-> 1, absolute |-> 1, add |-> 2, subtract |-> 2, multiply |-> 2, divide |-> 2, lt |-> 2, ge |-> 2,
                maximum |-> 2, select |-> 3]
\* every operation kind of the package whose constructor takes a fixed number of expression operands
MC_Unary == {"absolute", "acos", "acosh", "asin", "asin_acos_kernel", "asinh", "atan", "atanh", "ceil", "conjugate", "cos",
             "cosh", "downcast", "exp", "exp2", "expm1", "floor", "imag", "is_finite", "log", "log10", "log1p", "log2",
             "logical_not", "negative", "positive", "real", "round", "sign", "sin", "sinh", "sqrt", "square", "tan", "tanh",
             "truncate", "upcast"}
MC_Binary == {"add", "atan2", "bitwise_and", "bitwise_left_shift", "bitwise_or", "bitwise_right_shift", "bitwise_xor",
              "complex", "copysign", "divide", "eq", "floor_divide", "ge", "gt", "hypot", "le", "logical_and", "logical_or",
              "logical_xor", "lt", "maximum", "minimum", "multiply", "ne", "pow", "remainder", "subtract"}
MC_KindsAll == [k \in MC_Unary \cup MC_Binary \cup {"select"} |-> IF k \in MC_Unary THEN 1 ELSE IF k \in MC_Binary THEN 2 ELSE 3]
MC_Kinds == [negative |-> 1, subtract |-> 2, lt |-> 2]
MC_KindsSel == [negative |-> 1, subtract |-> 2, select |-> 3]

\* simulation-only next-state relation: one random request per step (RandomElement keeps the
\* branching at 1; the exhaustive relation enumerates thousands of successors per step)
LikeAny == MaxSteps >= 20       \* the long walks (SIM_ContextAll.cfg) also use operation nodes as likes
SimNext ==
  /\ Len(hist) < MaxSteps
  /\ \E c \in {RandomElement(1..10)} :     \* bound variables are evaluated once (LET is lazy)
       IF c <= 2 \/ Len(nodes) = 0
         THEN \E s \in {RandomElement(Symbols)} : Construct(SymbolNode(s)) /\ UNCHANGED nconst
       ELSE IF c <= 5
         THEN \E v \in {RandomElement(Values)}, lk \in {RandomElement(IF LikeAny THEN LikesAny ELSE Likes)} :
                 Construct(ConstNode(v, lk)) /\ nconst' = nconst + 1
       ELSE \E k \in {RandomElement(DOMAIN Kinds)} :
              \E o1 \in {RandomElement(Exprs)}, o2 \in {RandomElement(Exprs)}, o3 \in {RandomElement(Exprs)} :
                 Construct(OpNode(k, SubSeq(<<o1, o2, o3>>, 1, Kinds[k]))) /\ UNCHANGED nconst
SimSpec == Init /\ [][SimNext]_vars
=============================================================================
