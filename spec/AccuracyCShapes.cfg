\* U2: offsets -2..2 around every anchor; pair classes per function; relation shapes
SPECIFICATION Spec
CONSTANTS
  Ks <- KsFull
INVARIANT Emit
INVARIANT AnchorsSane
CHECK_DEADLOCK FALSE
