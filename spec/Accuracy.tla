------------------------------ MODULE Accuracy ------------------------------
(***************************************************************************)
(* C02 - real-line accuracy of every real algorithm (and the frame C01 is  *)
(* to be built on).  The property is a statement about the TRUE value t of *)
(* asin, acos, asinh, acosh, |.|, square, hypot at a floating-point input. *)
(* TLC has no reals; t is not imported from an oracle but SPECIFIED here   *)
(* through the inverse relation of each function, evaluated with the       *)
(* rigorous enclosures of Reals.tla.  Every clause is an exact comparison  *)
(* of dyadic numbers, or is "undecided" (never an alarm).                  *)
(*                                                                         *)
(* An event is (fn, fmt, x [, y], w): the generated implementation         *)
(* returned the bit pattern w for the input pattern(s) x (, y).            *)
(*                                                                         *)
(* CLAUSES (NaN inputs are outside the property: no obligations)           *)
(*  nan_expected  f undefined at x (asin, acos: |x| > 1 including +-inf;   *)
(*                acosh: x < 1 including -inf and -0 .. ) and w is not NaN *)
(*  spurious_nan  f defined at x and w is NaN                              *)
(*  limit         the exact values at infinities and zeros, from the table *)
(*                Limit below: w must be exactly +inf / -inf / a zero.     *)
(*                LENIENCY: the statement says "exact limits at infinities *)
(*                and zero" and is silent about the SIGN of a zero result, *)
(*                so either zero is accepted; a zero of the unexpected     *)
(*                sign (expected: sign of x for the odd functions, +0      *)
(*                otherwise) is reported as the note "zero_sign".          *)
(*  ulp           all other inputs: |Ord(w) - Ord(RN(t))| <= N on the      *)
(*                float lattice (N = UlpBound: 4 for float32, 5 for        *)
(*                float64).  Ord is the signed ordinal of IEEE.tla (both   *)
(*                zeros 0, +-inf = +-InfMag one step beyond +-largest, so  *)
(*                a correctly rounded overflow to inf is a lattice point). *)
(*                With L = Ord(w) - N, U = Ord(w) + N (clamped to the      *)
(*                lattice):                                                *)
(*                   Ord(RN(t)) >= L  <=>  t >= CellLo(L)                  *)
(*                   Ord(RN(t)) <= U  <=>  t <= CellHi(U)                  *)
(*                where [CellLo(z), CellHi(z)] is the set of reals that    *)
(*                round to ordinal z: its ends are the midpoints to the    *)
(*                neighbouring lattice points (the overflow threshold      *)
(*                (largest + 2^(emax+1))/2 at the top).  LENIENCY: the     *)
(*                cell is taken closed at both ends (a tie may go either   *)
(*                way).  A failing event also carries one severity class   *)
(*                sev_le8 / sev_le16 / sev_le64 / sev_le1024 / sev_gt1024  *)
(*                (the smallest of these bounds that holds), so that known *)
(*                findings can be bounded classes.                         *)
(*  Notes (statistics, never failures):                                    *)
(*    beyond3     the same test with N = 3 (the documented design target)  *)
(*                fails certainly: the driver counts them over the         *)
(*                uniform sample for the clause rate3                      *)
(*    undecided   a comparison stayed inconclusive after widening the      *)
(*                working width once (48 -> 96 bits for float32, 80 -> 160 *)
(*                for float64); the event then cannot fail                 *)
(*    undecided3  same for the N = 3 test                                  *)
(*    inexact     absolute / square: w is not RN(t) (t is an exact dyadic) *)
(*    zero_sign   see limit                                                *)
(*  rate3 (event fn = "rate")  k3 events out of n uniformly drawn inputs   *)
(*                exceeded 3 ULP.  The statement allows "fewer than one    *)
(*                input in 10^5".  The clause fails only when the observed *)
(*                count is statistically incompatible with a true rate     *)
(*                <= 10^-5 at the 99% level:  k3 > RateThreshold(n), the   *)
(*                smallest k with  P[Bin(n, 10^-5) >= k + 1] <= 1/100      *)
(*                PROVED by the bound below (so the threshold is computed  *)
(*                and justified inside the spec, not trusted from Python). *)
(*                                                                         *)
(* HOW "t >= a" IS DECIDED (a a dyadic point, the cell ends above).  Each  *)
(* f is monotone on the piece where t lives, so a is compared with t by    *)
(* comparing g(a) with the exact input, g the inverse function; tiny       *)
(* results keep their relative accuracy because the series of Reals.tla    *)
(* are relative (sin a ~ a, sinh a ~ a, coshm1 a ~ a^2/2):                 *)
(*   asin   t in [-pi/2, pi/2];  |a| > pi/2 decided by the pi enclosure;   *)
(*          else  a <=> t  as  sin a <=> x         (sin increasing there)  *)
(*   acos   t in [0, pi];  a < 0, a > pi by range;  else cos a <=> x with  *)
(*          the order reversed (cos decreasing on [0, pi])                 *)
(*   asinh  |t| < emax + 2  (asinh|x| <= ln(2|x| + 1) < ln 2^(emax+3) =    *)
(*          (emax + 3) ln 2 <= emax + 2 for finite x);  else sinh a <=> x  *)
(*   acosh  t in [0, emax + 2)  (acosh x <= ln 2x);  else                  *)
(*          cosh a - 1 <=> x - 1  (a > 0, increasing)                      *)
(*   hypot  t >= 0;  a^2 <=> x^2 + y^2  exactly                            *)
(*   absolute, square   t is an exact dyadic                               *)
(* TCmp returns the position of a relative to t: "lt" (a < t), "gt",       *)
(* "eq", or "un" (the enclosure of g(a) contains the input).               *)
(*                                                                         *)
(* EXTENSION POINTS FOR C01: Undefined / Limit / TCmp are tables by        *)
(* function name (add cases or write new tables); CellLo / CellHi /        *)
(* PosTwice / WithinNBy / SeverityBy / UlpVerdictBy take the comparison    *)
(* "position of a point relative to the true value" as an OPERATOR         *)
(* argument Pos(a, W), so a complex component is judged by the same frame  *)
(* once a Pos for "real part of f(z)" is written (with its own N and       *)
(* target).                                                                *)
(***************************************************************************)
EXTENDS IEEE, Reals

UnaryFns == {"absolute", "acos", "acosh", "asin", "asinh", "square"}
BinaryFns == {"hypot"}
UlpBound(f) == IF f.p <= 24 THEN 4 ELSE 5
Target == 3
\* first attempt; an inconclusive comparison is repeated once at twice the width (96 / 160 bits)
Width0(f) == IF f.p <= 24 THEN 48 ELSE 80
OneBits(f) == NShl(NFromInt(f.emax), f.p - 1)            \* pattern of +1.0

(*************************** the float lattice, with infinities ************)
\* value of the lattice point with signed ordinal z, |z| <= InfMag; the infinities stand at
\* +-2^(emax+1), where the next binade would begin (this makes the overflow threshold a midpoint)
TopExp(f) == DLead(Val(f, LargestMag(f))) + 1            \* = emax + 1 for a consistent format record
ValOrd(f, z) ==
  IF z[2] = InfMag(f) THEN <<ZMk(z[1], NOne), TopExp(f)>> ELSE Val(f, FromOrd(f, z))
ZOne == ZFromInt(1)
\* the reals rounding (to nearest) to ordinal z are [CellLo, CellHi]; CellLo of -InfMag and
\* CellHi of +InfMag do not exist (callers test AtBottom / AtTop first)
CellLo(f, z) == DHalf(DAdd(ValOrd(f, ZSub(z, ZOne)), ValOrd(f, z)))
CellHi(f, z) == DHalf(DAdd(ValOrd(f, z), ValOrd(f, ZAdd(z, ZOne))))
ZInf(f) == <<0, InfMag(f)>>
ZNegInf(f) == <<1, InfMag(f)>>
ZClamp(f, z) == IF ZLt(z, ZNegInf(f)) THEN ZNegInf(f) ELSE IF ZLt(ZInf(f), z) THEN ZInf(f) ELSE z

(*************************** position of a point relative to t *************)
\* S encloses g(a), v = g(t) exactly, g increasing / decreasing
PosInc(S, v) == IF DLt(S[2], v) THEN "lt" ELSE IF DLt(v, S[1]) THEN "gt"
                ELSE IF DEq(S[1], S[2]) THEN "eq" ELSE "un"
PosDec(S, v) == IF DLt(S[2], v) THEN "gt" ELSE IF DLt(v, S[1]) THEN "lt"
                ELSE IF DEq(S[1], S[2]) THEN "eq" ELSE "un"
PosExact(a, t) == LET c == DCmp(a, t) IN IF c < 0 THEN "lt" ELSE IF c > 0 THEN "gt" ELSE "eq"

\* vx, vy: exact values of the finite inputs; a: the point; W: working width
TCmp(fn, f, vx, vy, a, W) ==
  CASE fn = "asin" ->
         IF DLt(HalfPiI[2], a) THEN "gt"
         ELSE IF DLt(a, DNeg(HalfPiI[2])) THEN "lt"
         ELSE IF DLt(HalfPiI[1], DAbs(a)) THEN "un"
         ELSE PosInc(SinP(a, W), vx)
    [] fn = "acos" ->
         IF DSign(a) < 0 THEN "lt"
         ELSE IF DSign(a) = 0 THEN (IF DEq(vx, DOne) THEN "eq" ELSE "lt")
         ELSE IF DLt(PiI[2], a) THEN "gt"
         ELSE IF DLt(PiI[1], a) THEN "un"
         ELSE PosDec(CosP(a, W), vx)
    [] fn = "asinh" ->
         IF DLe(DFromInt(f.emax + 2), DAbs(a)) THEN (IF DSign(a) > 0 THEN "gt" ELSE "lt")
         ELSE PosInc(SinhP(a, W), vx)
    [] fn = "acosh" ->
         IF DSign(a) < 0 THEN "lt"
         ELSE IF DSign(a) = 0 THEN (IF DEq(vx, DOne) THEN "eq" ELSE "lt")
         ELSE IF DLe(DFromInt(f.emax + 2), a) THEN "gt"
         ELSE PosInc(CoshM1P(a, W), DSub(vx, DOne))
    [] fn = "hypot" ->
         IF DSign(a) < 0 THEN "lt"
         ELSE PosExact(DMul(a, a), DAdd(DMul(vx, vx), DMul(vy, vy)))
    [] fn = "absolute" -> PosExact(a, DAbs(vx))
    [] fn = "square" -> PosExact(a, DMul(vx, vx))
(*************************** the function-independent frame ***************)
\* Pos(a, W) is the position ("lt" / "gt" / "eq" / "un") of the dyadic point a relative to the true
\* value t, decided at working width W.  Everything below is independent of the function: C01 supplies
\* a Pos for "real part of f(z)" / "imaginary part of f(z)" and its own bound N.
\* one widening of the working width on an inconclusive comparison
PosTwice(Pos(_, _), a, W) ==
  LET p == Pos(a, W)
  IN  IF p = "un" THEN Pos(a, 2 * W) ELSE p

\* "ok": certainly |Ord(w) - Ord(RN(t))| <= N;  "bad": certainly not;  "un": undecided
WithinNBy(Pos(_, _), f, w, N) ==
  LET oz == Ord(f, w)
      L == ZClamp(f, ZSub(oz, ZFromInt(N)))
      U == ZClamp(f, ZAdd(oz, ZFromInt(N)))
      W == Width0(f)
      lo == IF L = ZNegInf(f) THEN "lt" ELSE PosTwice(Pos, CellLo(f, L), W)     \* want a <= t
  IN  IF lo = "gt" THEN "bad"
      ELSE LET hi == IF U = ZInf(f) THEN "gt" ELSE PosTwice(Pos, CellHi(f, U), W)  \* want a >= t
           IN  IF hi = "lt" THEN "bad"
               ELSE IF lo = "un" \/ hi = "un" THEN "un" ELSE "ok"

SeverityBy(Pos(_, _), f, w) ==
  IF WithinNBy(Pos, f, w, 8) # "bad" THEN "sev_le8"
  ELSE IF WithinNBy(Pos, f, w, 16) # "bad" THEN "sev_le16"
  ELSE IF WithinNBy(Pos, f, w, 64) # "bad" THEN "sev_le64"
  ELSE IF WithinNBy(Pos, f, w, 1024) # "bad" THEN "sev_le1024"
  ELSE "sev_gt1024"

\* the ulp clause (bound N) and the design-target statistic (bound T <= N) for a finite true value and
\* a result w that is not NaN: [fails, notes]
UlpVerdictBy(Pos(_, _), f, w, N, T) ==
  LET w3 == WithinNBy(Pos, f, w, T)
  IN  IF w3 = "ok" THEN [fails |-> {}, notes |-> {}]
      ELSE LET wn == WithinNBy(Pos, f, w, N)
               n3 == IF w3 = "bad" THEN {"beyond3"} ELSE {"undecided3"}
           IN  IF wn = "bad" THEN [fails |-> {"ulp", SeverityBy(Pos, f, w)}, notes |-> n3]
               ELSE IF wn = "un" THEN [fails |-> {}, notes |-> n3 \cup {"undecided"}]
               ELSE [fails |-> {}, notes |-> n3]

(*************************** the real functions in the frame ***************)
WithinN(fn, f, vx, vy, w, N) ==
  LET Pos(a, W) == TCmp(fn, f, vx, vy, a, W) IN WithinNBy(Pos, f, w, N)
UlpVerdict(fn, f, vx, vy, w) ==
  LET Pos(a, W) == TCmp(fn, f, vx, vy, a, W) IN UlpVerdictBy(Pos, f, w, UlpBound(f), Target)

(*************************** where f is undefined; exact limits ************)
AbsGtOne(f, x) == NCmp(Mag(f, x), OneBits(f)) > 0               \* |x| > 1, infinities included
LtOne(f, x) == (SignBit(f, x) = 1) \/ NCmp(Mag(f, x), OneBits(f)) < 0   \* x < 1 (-0, -inf included)
Undefined(fn, f, x) ==
  CASE fn \in {"asin", "acos"} -> AbsGtOne(f, x)
    [] fn = "acosh" -> LtOne(f, x)
    [] OTHER -> FALSE
\* "none", or the exact result demanded: "zero+" / "zero-" (a zero; the sign is the expected one,
\* not demanded), "pinf", "ninf"
SignedZero(f, x) == IF SignBit(f, x) = 1 THEN "zero-" ELSE "zero+"
Limit(fn, f, x) ==
  CASE fn = "asin" -> IF IsZero(f, x) THEN SignedZero(f, x) ELSE "none"
    [] fn = "acos" -> IF x = OneBits(f) THEN "zero+" ELSE "none"
    [] fn = "asinh" -> IF IsZero(f, x) THEN SignedZero(f, x)
                       ELSE IF x = PosInf(f) THEN "pinf" ELSE IF x = NegInf(f) THEN "ninf" ELSE "none"
    [] fn = "acosh" -> IF x = OneBits(f) THEN "zero+" ELSE IF x = PosInf(f) THEN "pinf" ELSE "none"
    [] fn \in {"absolute", "square"} ->
         IF IsZero(f, x) THEN "zero+" ELSE IF IsInf(f, x) THEN "pinf" ELSE "none"
Limit2(fn, f, x, y) ==          \* hypot
  IF IsInf(f, x) \/ IsInf(f, y) THEN "pinf"
  ELSE IF IsZero(f, x) /\ IsZero(f, y) THEN "zero+" ELSE "none"

LimitVerdict(f, lim, w) ==
  CASE lim = "pinf" -> [fails |-> IF w = PosInf(f) THEN {} ELSE {"limit"}, notes |-> {}]
    [] lim = "ninf" -> [fails |-> IF w = NegInf(f) THEN {} ELSE {"limit"}, notes |-> {}]
    [] OTHER -> [fails |-> IF IsZero(f, w) THEN {} ELSE {"limit"},
                 notes |-> IF IsZero(f, w) /\ (SignBit(f, w) = 1) # (lim = "zero-") THEN {"zero_sign"} ELSE {}]

\* informational: exactness of absolute / square
ExactNote(fn, f, x, w) ==
  IF fn = "absolute" /\ w # FAbs(f, x) THEN {"inexact"}
  ELSE IF fn = "square" /\ w # FMul(f, x, x) THEN {"inexact"} ELSE {}

(*************************** verdict of one event **************************)
Merge(a, b) == [fails |-> a.fails \cup b.fails, notes |-> a.notes \cup b.notes]
Verdict1(fn, f, x, w) ==
  IF IsNaN(f, x) THEN [fails |-> {}, notes |-> {"nan_input"}]
  ELSE IF Undefined(fn, f, x) THEN [fails |-> IF IsNaN(f, w) THEN {} ELSE {"nan_expected"}, notes |-> {}]
  ELSE IF IsNaN(f, w) THEN [fails |-> {"spurious_nan"}, notes |-> {}]
  ELSE LET lim == Limit(fn, f, x)
       IN  IF lim # "none" THEN LimitVerdict(f, lim, w)
           ELSE Merge(UlpVerdict(fn, f, Val(f, x), DZero, w), [fails |-> {}, notes |-> ExactNote(fn, f, x, w)])
Verdict2(fn, f, x, y, w) ==
  IF IsNaN(f, x) \/ IsNaN(f, y) THEN [fails |-> {}, notes |-> {"nan_input"}]
  ELSE IF IsNaN(f, w) THEN [fails |-> {"spurious_nan"}, notes |-> {}]
  ELSE LET lim == Limit2(fn, f, x, y)
       IN  IF lim # "none" THEN LimitVerdict(f, lim, w)
           ELSE UlpVerdict(fn, f, Val(f, x), Val(f, y), w)

(*************************** the 3-ULP rate ********************************)
\* X ~ Bin(n, p), p = 10^-5.  For k + 1 > n p / (1 - p):
\*   P[X >= k] = sum_{j >= k} b(j),  b(j+1)/b(j) = (n-j) p / ((j+1)(1-p)) <= rho := n p / ((k+1)(1-p)) < 1
\*             <= b(k) / (1 - rho),
\*   b(k) = C(n,k) p^k (1-p)^(n-k) <= (n p)^k / k! * exp(-p (n - k))      (C(n,k) <= n^k/k!, 1-p <= e^-p)
\* TailBound is an upper enclosure end of that bound (width 64); RateThreshold(n) the smallest k
\* with TailBound(n, k + 1) <= 1/100: observing more than that many exceedances among n inputs
\* refutes "rate <= 10^-5" at the 99% level.
RW == 64
PInv == 100000
RECURSIVE PowOverFact(_, _, _, _)
PowOverFact(np, k, j, acc) == IF j > k THEN acc ELSE PowOverFact(np, k, j + 1, IDivInt(IMul(acc, np, RW), j, RW))
\* n a dyadic integer; returns <<valid, upper bound>>
TailBound(n, k) ==
  LET np == IDivInt(IPt(n), PInv, RW)
      rho == IDiv(IPt(n), IMulInt(IInt(PInv - 1), k + 1, RW), RW)    \* n / ((k+1)(10^5 - 1))
      valid == DLt(rho[2], DOne)
      ex == ExpI(INeg(IDivInt(ISub(IPt(n), IInt(k), RW), PInv, RW)), RW)
      bk == IMul(PowOverFact(np, k, 1, IOne), ex, RW)
  IN  IF ~valid THEN <<FALSE, DOne>> ELSE <<TRUE, IDiv(bk, ISub(IOne, rho, RW), RW)[2]>>
RECURSIVE RateThresholdFrom(_, _)
RateThresholdFrom(n, k) ==
  LET tb == TailBound(n, k + 1)
  IN  IF tb[1] /\ DLe(DMul(tb[2], DFromInt(100)), DOne) THEN k ELSE RateThresholdFrom(n, k + 1)
RateThreshold(n) == RateThresholdFrom(n, 0)             \* n: BigInt natural (< 2^28 * 10^5)
\* clause rate3 for counts given as naturals
RateFails(nNat, k3Nat) ==
  IF NCmp(k3Nat, NFromInt(RateThreshold(DFromNat(nNat)))) > 0 THEN {"rate3"} ELSE {}
=============================================================================
