------------------------------ MODULE Convert -------------------------------
(***************************************************************************)
(* C13: number-representation conversions are lossless and mutually        *)
(* inverse.                                                                *)
(*                                                                         *)
(* A float travels as its raw bit pattern; its value is IEEE!Val.  The     *)
(* intermediate objects are logged in uninterpreted encodings and are      *)
(* given a value HERE:                                                     *)
(*   fraction      numerator (BigInt signed) / denominator (BigInt nat)    *)
(*   binary string list of character codes, parsed by ParseBin below       *)
(*   mpmath mpf    its _mpf_ tuple <<sign, man, exp, bc>> (man a BigInt    *)
(*                 natural, exp and bc native integers); mpmath's special  *)
(*                 values are the fixed tuples MpfPInf, MpfNInf, MpfNaN    *)
(*   expansion / multiword   list of bit patterns of the words             *)
(*                                                                         *)
(* Clauses (from the property statement, for a float x of format f):       *)
(*   value    ValueOf(intermediate) = Val(f, x) exactly   (x finite)       *)
(*   sum      the words of an expansion/multiword add up to Val(f, x)      *)
(*   back     the value converted back has the bit pattern x               *)
(*   special  +-inf / NaN are mapped to the intermediate format's own      *)
(*            infinity / NaN and back (NaN: any NaN; payloads are free)    *)
(*   fwd_raised / fwd_timeout / back_raised / back_timeout                 *)
(*            a conversion that the property demands did not return        *)
(*                                                                         *)
(* Leniencies (the statement is resolved in favour of the code):           *)
(*  L1 a fraction cannot carry the sign of zero (stated): -0 may come back *)
(*     as either zero.  The same is accepted for every route through an    *)
(*     mpmath mpf (mpf, expansion, multiword): mpmath has no signed zero,  *)
(*     so the format cannot express it.  The binary STRING can ("-0"), so  *)
(*     there the round trip must be bit-identical.                         *)
(*  L2 fractions cannot express inf/NaN: nothing is demanded of them.      *)
(*  L3 NaN -> any NaN (sign/payload free).                                 *)
(*  L4 an empty word list is the value zero; where the driver had nothing  *)
(*     to convert back (float2expansion of zero) no way back is demanded.  *)
(*  L5 conversions into a NARROWER word format are only judged when the    *)
(*     value is in the narrow format's domain (NarrowOK) and the list is   *)
(*     unbounded; the mpmath context must have at least f.p bits.          *)
(*  L6 the binary-string grammar accepted is wider than what float2bin     *)
(*     prints (any binary digits, optional point, optional exponent sign). *)
(*  L7 no cascades: when the word list itself is wrong only the sum clause *)
(*     is reported (the ways back are judged for correct lists).  A wrong  *)
(*     sum that is the value with low-order bits dropped is named          *)
(*     sum_truncated, any other wrong sum is named sum.                    *)
(* Clause names are  tag:clause@class  (tag: opaque label of the route and *)
(* configuration given by the driver; class: Cls of the input).            *)
(***************************************************************************)
EXTENDS IEEE, TLC

(*************************** character codes *******************************)
ChMinus == 45  ChPlus == 43  ChDot == 46  Ch0 == 48  Ch1 == 49  Ch9 == 57  ChP == 112
StrInf == <<105, 110, 102>>
StrNaN == <<110, 97, 110>>

RECURSIVE IndexOf(_, _, _)
IndexOf(s, c, i) == IF i > Len(s) THEN 0 ELSE IF s[i] = c THEN i ELSE IndexOf(s, c, i + 1)

RECURSIVE CountOf(_, _, _)
CountOf(s, c, i) == IF i > Len(s) THEN 0 ELSE (IF s[i] = c THEN 1 ELSE 0) + CountOf(s, c, i + 1)

AllIn(s, lo, hi) == \A i \in 1..Len(s) : s[i] >= lo /\ s[i] <= hi

\* most-significant-first binary digit characters ds[lo..hi] as a native number (<= 15 digits)
RECURSIVE Horner2(_, _, _, _)
Horner2(ds, lo, hi, acc) == IF lo > hi THEN acc ELSE Horner2(ds, lo + 1, hi, 2 * acc + (ds[lo] - Ch0))

\* binary digit string (most significant first) -> BigInt natural, limb by limb
BinDigitsToNat(ds) ==
  LET n == Len(ds)
      nl == (n + LB - 1) \div LB
  IN  NNorm([i \in 1..nl |-> Horner2(ds, Max(1, n - LB * (i - 1) - (LB - 1)), n - LB * (i - 1), 0)])

RECURSIVE Horner10(_, _, _)
Horner10(ds, i, acc) == IF i > Len(ds) THEN acc ELSE Horner10(ds, i + 1, 10 * acc + (ds[i] - Ch0))

Bad == [kind |-> "bad", neg |-> 0, d |-> DZero]

\* mantissa 'p' exponent  (sign already stripped)
ParseManExp(body, neg) ==
  LET pi == IndexOf(body, ChP, 1)
      mant == SubSeq(body, 1, pi - 1)
      ex == SubSeq(body, pi + 1, Len(body))
      dot == IndexOf(mant, ChDot, 1)
      digits == IF dot = 0 THEN mant ELSE SubSeq(mant, 1, dot - 1) \o SubSeq(mant, dot + 1, Len(mant))
      k == IF dot = 0 THEN 0 ELSE Len(mant) - dot
      esgn == ex # <<>> /\ ex[1] \in {ChPlus, ChMinus}
      edig == IF esgn THEN Tail(ex) ELSE ex
      E == IF ex # <<>> /\ ex[1] = ChMinus THEN -Horner10(edig, 1, 0) ELSE Horner10(edig, 1, 0)
  IN  IF pi = 0 \/ pi = 1 THEN Bad
      ELSE IF CountOf(mant, ChDot, 1) > 1 \/ digits = <<>> \/ ~AllIn(digits, Ch0, Ch1) THEN Bad
      ELSE IF edig = <<>> \/ Len(edig) > 6 \/ ~AllIn(edig, Ch0, Ch9) THEN Bad
      ELSE [kind |-> "fin", neg |-> neg, d |-> DMk(ZMk(neg, BinDigitsToNat(digits)), E - k)]

\* the value denoted by a binary significand/exponent string
ParseBin(cs) ==
  LET neg == IF cs # <<>> /\ cs[1] = ChMinus THEN 1 ELSE 0
      body == IF neg = 1 THEN Tail(cs) ELSE cs
  IN  IF body = StrInf THEN [kind |-> "inf", neg |-> neg, d |-> DZero]
      ELSE IF body = StrNaN THEN [kind |-> "nan", neg |-> neg, d |-> DZero]
      ELSE IF body = <<Ch0>> THEN [kind |-> "fin", neg |-> neg, d |-> DZero]
      ELSE ParseManExp(body, neg)

(*************************** mpmath mpf tuples *****************************)
MpfPInf == <<0, <<>>, -456, -2>>
MpfNInf == <<1, <<>>, -789, -3>>
MpfNaN == <<0, <<>>, -123, -1>>
MpfZero == <<0, <<>>, 0, 0>>
MpfKind(m) == IF m[2] # <<>> THEN "fin"
              ELSE IF m = MpfZero THEN "zero"
              ELSE IF m = MpfPInf THEN "pinf"
              ELSE IF m = MpfNInf THEN "ninf"
              ELSE IF m = MpfNaN THEN "nan" ELSE "bad"
MpfIsNum(m) == MpfKind(m) \in {"fin", "zero"}
\* a normalised mpf: odd mantissa, bc its bit length
MpfWF(m) == /\ m[1] \in {0, 1}
            /\ MpfIsNum(m)
            /\ (m[2] # <<>> => (NIsOdd(m[2]) /\ m[4] = NBitLen(m[2])))
MpfVal(m) == DMk(ZMk(m[1], m[2]), m[3])

(*************************** classes of inputs *****************************)
Cls(f, x) == IF IsNaN(f, x) THEN "nan"
             ELSE IF IsInf(f, x) THEN (IF SignBit(f, x) = 1 THEN "ninf" ELSE "pinf")
             ELSE IF IsZero(f, x) THEN (IF SignBit(f, x) = 1 THEN "nzero" ELSE "pzero")
             ELSE IF IsSubnormal(f, x) THEN "sub" ELSE "norm"

\* bit identical; zsignfree: -0 may come back as either zero (L1)
BackOK(f, x, back, zsignfree) ==
  IF IsNaN(f, x) THEN IsNaN(f, back)
  ELSE IF zsignfree /\ x = NegZero(f) THEN IsZero(f, back)
  ELSE back = x

\* exact value of a word list (all words finite)
WordsFinite(wf, ws) == \A i \in 1..Len(ws) : IsFinite(wf, ws[i])
WordVals(wf, ws) == [i \in 1..Len(ws) |-> Val(wf, ws[i])]
WordSum(wf, ws) == DSum(WordVals(wf, ws))
\* the `base` convention of mpf2expansion(..., base=2^lb): the value of the list is  SUM_i  w_i / base^(i-1)   (lb = 0: plain sum)
WordSumB(wf, ws, lb) == DSum([i \in 1..Len(ws) |-> DShl(Val(wf, ws[i]), -(lb * (i - 1)))])
LbOf(r) == IF "lb" \in DOMAIN r THEN r.lb ELSE 0

\* the value v can be written exactly as an unbounded RN-expansion in format wf
NarrowOK(wf, v) == \/ DIsZero(v)
                   \/ /\ IsFinite(wf, RN(wf, v))
                      /\ DCanon(v)[2] >= QMin(wf)

\* s is v with low-order bits dropped (what a truncating conversion produces)
IsTruncationOf(s, v) ==
  /\ ~DIsZero(v)
  /\ DLt(DAbs(s), DAbs(v))
  /\ (DIsZero(s) \/ (DSign(s) = DSign(v)
                     /\ DLt(DSub(DAbs(v), DAbs(s)), <<ZFromInt(1), DCanon(s)[2]>>)))

(*************************** the clauses ***********************************)
Nm(tag, clause, cls) == tag \o ":" \o clause \o "@" \o cls
If(c, name) == IF c THEN {name} ELSE {}

\* ---- fraction
FracFails(f, x, r) ==
  LET c == Cls(f, x)
      fin == IsFinite(f, x)
  IN  IF ~fin THEN {}                                                     \* L2
      ELSE IF r.st # "ok" THEN {Nm("frac", r.st, c)}
      ELSE IF r.den = <<>> THEN {Nm("frac", "value", c)}
      ELSE If(~QEq(<<r.num, r.den>>, QFromD(Val(f, x))), Nm("frac", "value", c))
           \cup If(~BackOK(f, x, r.back, TRUE), Nm("frac", "back", c))

\* ---- binary string
BinFails(f, x, r) ==
  LET c == Cls(f, x)
      P == ParseBin(r.s)
  IN  IF r.st # "ok" THEN {Nm("bin", r.st, c)}
      ELSE IF IsFinite(f, x) THEN
             (IF P.kind # "fin" THEN {Nm("bin", "syntax", c)}
              ELSE If(~DEq(P.d, Val(f, x)), Nm("bin", "value", c)))
             \cup If(~BackOK(f, x, r.back, FALSE), Nm("bin", "back", c))
      ELSE IF IsInf(f, x) THEN
             If(~(P.kind = "inf" /\ P.neg = SignBit(f, x)), Nm("bin", "special", c))
             \cup If(r.back # x, Nm("bin", "back", c))
      ELSE   If(P.kind # "nan", Nm("bin", "special", c))
             \cup If(~IsNaN(f, r.back), Nm("bin", "back", c))

\* ---- mpf (r.prec: working precision of the mpmath context, informational)
MpfFails(f, x, r) ==
  LET c == Cls(f, x)
      m == r.m
      t == r.tag
  IN  IF r.st # "ok" THEN {Nm(t, r.st, c)}
      ELSE IF IsFinite(f, x) THEN
             (IF ~MpfWF(m) THEN {Nm(t, "wellformed", c)}
              ELSE If(~DEq(MpfVal(m), Val(f, x)), Nm(t, "value", c)))
             \cup If(~BackOK(f, x, r.back, TRUE), Nm(t, "back", c))
      ELSE IF IsInf(f, x) THEN
             If(m # (IF SignBit(f, x) = 1 THEN MpfNInf ELSE MpfPInf), Nm(t, "special", c))
             \cup If(r.back # x, Nm(t, "back", c))
      ELSE   If(m # MpfNaN, Nm(t, "special", c))
             \cup If(~IsNaN(f, r.back), Nm(t, "back", c))

\* ---- word lists: expansions (kind "ex", "f2e") and multiwords (kind "mw")
\* r.wfmt word format, r.words, r.unbounded (no length limit was requested),
\* r.hasbm (an mpf was produced on the way back) r.bm, r.prec, r.back
WordsFails(f, x, r) ==
  LET c == Cls(f, x)
      t == r.tag
      wf == FmtOf(r.wfmt)
      ws == r.words
      fin == IsFinite(f, x)
      v == Val(f, x)
      dom == /\ fin
             /\ r.prec >= f.p
             /\ (wf = f \/ (r.unbounded /\ NarrowOK(wf, v)))                 \* L5
  IN  IF fin /\ ~dom THEN {}
      ELSE IF r.st = "back_skipped_empty" THEN
        \* L4: the empty list is zero; there is nothing to convert back
        If(~(ws = <<>> /\ IsZero(f, x)), Nm(t, "sum", c))
      ELSE IF r.st \notin {"ok", "ok_fwd_only"} THEN {Nm(t, r.st, c)}
      ELSE IF fin THEN
        \* the ways back are judged only when the list itself is right (no cascades)
        IF ~WordsFinite(wf, ws) THEN {Nm(t, "sum", c)}
        ELSE LET s == WordSumB(wf, ws, LbOf(r))
             IN  IF ~DEq(s, v) THEN
                   {Nm(t, IF IsTruncationOf(s, v) THEN "sum_truncated" ELSE "sum", c)}
                 ELSE IF r.st = "ok_fwd_only" THEN {}          \* (no way back exists for the base convention)
                 ELSE (IF ~r.hasbm THEN {}
                       ELSE IF ~MpfIsNum(r.bm) THEN {Nm(t, "back_mpf", c)}
                       ELSE If(~DEq(MpfVal(r.bm), v), Nm(t, "back_mpf", c)))
                      \cup If(~BackOK(f, x, r.back, TRUE), Nm(t, "back", c))
      ELSE IF wf # f THEN {}
      ELSE IF IsInf(f, x) THEN
             If(~((\E i \in 1..Len(ws) : ws[i] = x)
                  /\ (\A i \in 1..Len(ws) : ws[i] = x \/ IsFinite(wf, ws[i]))), Nm(t, "special", c))
             \cup If(r.back # x, Nm(t, "back", c))
      ELSE   If(~(\E i \in 1..Len(ws) : IsNaN(wf, ws[i])), Nm(t, "special", c))
             \cup If(~IsNaN(f, r.back), Nm(t, "back", c))

SeqFails(Op(_, _, _), f, x, rs) == UNION {Op(f, x, rs[i]) : i \in 1..Len(rs)}

\* all clauses violated by one recorded input
ConvFails(e) ==
  LET f == FmtOf(e.fmt)
      x == e.x
  IN  (IF "frac" \in DOMAIN e THEN FracFails(f, x, e.frac) ELSE {})
      \cup (IF "bin" \in DOMAIN e THEN BinFails(f, x, e.bin) ELSE {})
      \cup (IF "mpf" \in DOMAIN e THEN SeqFails(MpfFails, f, x, e.mpf) ELSE {})
      \cup (IF "wl" \in DOMAIN e THEN SeqFails(WordsFails, f, x, e.wl) ELSE {})
=============================================================================
