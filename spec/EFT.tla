-------------------------------- MODULE EFT ---------------------------------
(***************************************************************************)
(* C10 - error-free transformations are exact.                             *)
(*                                                                         *)
(* Statement: "On their documented domains (no overflow in intermediate    *)
(* operations; for products, the error term representable), the building   *)
(* blocks return pairs that represent the exact result: 2Sum gives         *)
(* s = RN(x+y) and s+t = x+y exactly; Fast2Sum the same when |x| >= |y|;   *)
(* the Veltkamp splitter gives x = xh + xl exactly with both halves        *)
(* fitting in half the significand, over the whole finite range when       *)
(* scaling is enabled; Dekker's product gives h = RN(x*y) and h+l = x*y    *)
(* exactly; and the same holds for the copies used inside the complex      *)
(* log/log1p algorithms and in the utilities module."                      *)
(*                                                                         *)
(* A float is its raw bit pattern (IEEE.tla); f is the format.  The        *)
(* RELATIONS (clauses) are written from the statement only:                *)
(*   sum_rn       IsRN(x + y, s)                                           *)
(*   sum_exact    s, t finite and s + t = x + y          (exact dyadics)   *)
(*   split_exact  xh, xl finite and xh + xl = x                            *)
(*   split_bits   SigBits(xh) <= hb and SigBits(xl) <= hb, hb = ceil(p/2)  *)
(*                (for a caller-supplied constant 2^k+1: hb = max(k, p-k)) *)
(*   prod_rn      IsRN(x * y, h)                                           *)
(*   prod_exact   h, l finite and h + l = x * y                            *)
(* The DOMAIN of each clause is computed here from the inputs by running   *)
(* the TRANSCRIPTION of the algorithm (the *Run operators: the algorithm   *)
(* as straight-line IEEE arithmetic, FAdd/FSub/FMul of IEEE.tla):          *)
(*   "no overflow in intermediate operations" = every value of the         *)
(*       transcription that flows into the returned pair is finite;        *)
(*   Fast2Sum: additionally |x| >= |y|;                                    *)
(*   splitter with scaling and the standard constant: every finite x;      *)
(*   prod_exact: additionally Representable(x*y - RN(x*y)).                *)
(* The transcriptions decide only the domain; a difference between the     *)
(* transcription's outputs and the code's outputs is DRIFT (a note).       *)
(*                                                                         *)
(* Leniencies (ambiguities resolved in the code's favour):                 *)
(*  L1 the sign of a zero in a returned pair is free (values are compared) *)
(*  L2 "fitting in half the significand" = at most ceil(p/2) significant   *)
(*     bits (span of the odd mantissa); the repository's own test uses the *)
(*     same bound                                                          *)
(*  L3 fix_overflow=True does not enlarge the domain: outside "no          *)
(*     intermediate overflow" nothing is demanded (the pair (x+y, 0) it    *)
(*     produces there is only noted)                                       *)
(*  L4 assume_fma=True cannot be observed under NumPy (no fused multiply-  *)
(*     add): only "the call returns a pair" is demanded                    *)
(*  L5 sum of three terms (sum_2sum): only when the transcription's        *)
(*     t1 + t2 is exact, i.e. when the composition is error-free           *)
(*  L6 floating_point_algorithms.split_veltkamp called without a constant  *)
(*     multiplies by 2^s although its docstring says 2^s + 1: the domain   *)
(*     "no intermediate overflow" is the intersection of both readings     *)
(*                                                                         *)
(* Every clause exists in a *F form over already computed FACTS (used by   *)
(* the trace spec, which computes each fact once per line) and a *R form   *)
(* over a transcription run; the *R forms are defined through the *F forms *)
(* so that U1 and U3 judge by the same definition.                         *)
(***************************************************************************)
EXTENDS IEEE

CeilHalf(p) == (p + 1) \div 2
SplitS(f) == CeilHalf(f.p)

DOne == <<<<0, <<1>>>>, 0>>
DPow2(k) == <<<<0, <<1>>>>, k>>
FPow2(f, k) == RN(f, DPow2(k))
ConstN(f) == FPow2(f, SplitS(f))                          \* 2^s
ConstC(f) == RN(f, DAdd(DPow2(SplitS(f)), DOne))          \* 2^s + 1
ConstInvN(f) == FPow2(f, 0 - SplitS(f))                   \* 2^-s
\* the splitter's clamp threshold (2^(p div 2) - 1) * 2^(emax + 1 - p div 2)
XMaxD(f) == <<<<0, NSub(NPow2(f.p \div 2), NOne)>>, f.emax + 1 - (f.p \div 2)>>
ConstXMax(f) == RN(f, XMaxD(f))
\* the constants of a format, computed once (per trace line / per toy format)
FConsts(f) == [N |-> ConstN(f), C |-> ConstC(f), invN |-> ConstInvN(f), xmax |-> ConstXMax(f), xmaxD |-> XMaxD(f)]

(*************************** non-finite propagating arithmetic *************)
\* one marker for "not finite" (a NaN pattern); an infinite result of FAdd/FMul is
\* not finite either and turns into the marker at the next operation
NF(f) == NAdd(InfMag(f), NOne)
Fin2(f, a, b) == IsFinite(f, a) /\ IsFinite(f, b)
XAdd(f, a, b) == IF Fin2(f, a, b) THEN FAdd(f, a, b) ELSE NF(f)
XSub(f, a, b) == IF Fin2(f, a, b) THEN FSub(f, a, b) ELSE NF(f)
XMul(f, a, b) == IF Fin2(f, a, b) THEN FMul(f, a, b) ELSE NF(f)
XNeg(f, a) == IF IsFinite(f, a) THEN FNeg(f, a) ELSE NF(f)

AbsGe(f, x, y) == DLe(DAbs(Val(f, y)), DAbs(Val(f, x)))       \* |x| >= |y|
\* same result up to the sign of zero / both not finite
Same(f, a, b) == IF Fin2(f, a, b) THEN a = b \/ DEq(Val(f, a), Val(f, b))
                 ELSE ~IsFinite(f, a) /\ ~IsFinite(f, b)

(*************************** transcriptions ********************************)
\* 2Sum (Knuth/Moller) and Fast2Sum (Dekker) as the code spells them
SumRun(f, x, y, fast) ==
  LET s == XAdd(f, x, y)
      z == XSub(f, s, x)
      t == IF fast THEN XSub(f, y, z)
           ELSE XAdd(f, XSub(f, x, XSub(f, s, z)), XSub(f, y, z))
  IN  [s |-> s, t |-> t, ok |-> IsFinite(f, s) /\ IsFinite(f, t)]

\* the configuration of a splitter call: alg "n" = the variant of
\* floating_point_algorithms.split_veltkamp (g = C*x', d = g - x', h = g - d, with the
\* power-of-two pre/post scaling and the x_max clamp when scale), alg "c" = the classical
\* Veltkamp splitter (g = C*x, d = x - g, h = g + d); cg = the caller supplied the constant c
\* K = FConsts(f)
\* (before repo commit 92b9285 the default of alg "n" was K.N = 2^s: a genuine defect, kept as the
\* negative-control configs nNS / nNU of MC_EFT, where the constant is passed explicitly)
CfgC(K, cfg) == IF cfg.cg THEN cfg.c ELSE K.C
\* the constant is 2^k or 2^k + 1 with k = ceil(p/2)
CfgStd(K, cfg) == ~cfg.cg \/ cfg.c = K.N \/ cfg.c = K.C
\* k of a constant 2^k (+ 1)
CfgK(f, K, cfg) == DLead(Val(f, CfgC(K, cfg)))

SplitRunN(f, K, x, C, scale) ==
  LET ax == DAbs(Val(f, x))
      small == DLt(ax, DOne)
      big == DLt(K.xmaxD, ax)
      xn == IF scale /\ ~small THEN XMul(f, x, K.invN) ELSE x
      g == XMul(f, C, xn)
      d == XSub(f, g, xn)
      gd == XSub(f, g, d)
      h == IF ~scale THEN gd
           ELSE IF big THEN WithSign(f, SignBit(f, x), K.xmax)
           ELSE IF small THEN gd ELSE XMul(f, gd, K.N)
  IN  [h |-> h, l |-> XSub(f, x, h)]

SplitRunC(f, x, C) ==
  LET g == XMul(f, C, x)
      d == XSub(f, x, g)
      h == XAdd(f, g, d)
  IN  [h |-> h, l |-> XSub(f, x, h)]

\* x must be finite
SplitRunBase(f, K, x, cfg) ==
  LET r == IF cfg.alg = "n" THEN SplitRunN(f, K, x, CfgC(K, cfg), cfg.scale)
           ELSE SplitRunC(f, x, CfgC(K, cfg))
  IN  [h |-> r.h, l |-> r.l, ok |-> Fin2(f, r.h, r.l)]
\* L6: the default constant of alg "n" is ambiguous (2^s in the code, 2^s + 1 in its
\* docstring): the domain is the intersection - finite under both readings
AmbiguousDefault(cfg) == FALSE   \* since 92b9285 code and docstring agree on 2^s + 1
AltCfg(K, cfg) == [cfg EXCEPT !.cg = TRUE, !.c = K.C]
SplitRun(f, K, x, cfg) ==
  LET r == SplitRunBase(f, K, x, cfg)
  IN  [h |-> r.h, l |-> r.l,
       ok |-> r.ok /\ (AmbiguousDefault(cfg) => SplitRunBase(f, K, x, AltCfg(K, cfg)).ok)]

\* Dekker's product on the halves (mul_dw / multiply_dekker / square_dekker)
ProdRunBase(f, K, x, y, cfg) ==
  LET sx == SplitRunBase(f, K, x, cfg)
      sy == IF y = x THEN sx ELSE SplitRunBase(f, K, y, cfg)
      h == XMul(f, x, y)
      t1 == XAdd(f, XNeg(f, h), XMul(f, sx.h, sy.h))
      t2 == XAdd(f, t1, XMul(f, sx.h, sy.l))
      t3 == XAdd(f, t2, XMul(f, sx.l, sy.h))
      l == XAdd(f, t3, XMul(f, sx.l, sy.l))
  IN  [h |-> h, l |-> l, ok |-> sx.ok /\ sy.ok /\ Fin2(f, h, l)]
ProdRun(f, K, x, y, cfg) ==
  LET r == ProdRunBase(f, K, x, y, cfg)
  IN  [h |-> r.h, l |-> r.l,
       ok |-> r.ok /\ (AmbiguousDefault(cfg) => ProdRunBase(f, K, x, y, AltCfg(K, cfg)).ok)]

\* sum_2sum on three terms
Sum3Run(f, x, y, z, fast) ==
  LET a == SumRun(f, x, y, fast)
      b == SumRun(f, a.s, z, fast)
      tt == XAdd(f, a.t, b.t)
      c == SumRun(f, b.s, tt, fast)
      fin == a.ok /\ b.ok /\ c.ok /\ IsFinite(f, tt)
  IN  [s |-> c.s, t |-> c.t, ok |-> fin,
       texact |-> fin /\ Representable(f, DAdd(Val(f, a.t), Val(f, b.t))),
       ordered |-> fin /\ AbsGe(f, x, y) /\ AbsGe(f, a.s, z) /\ AbsGe(f, b.s, tt)]

(*************************** facts *****************************************)
\* bits is a correctly rounded image of d, given rn = RN(f, d)
IsRNGiven(f, d, rn, bits) == IF DIsZero(d) THEN IsZero(f, bits) ELSE bits = rn
\* the pair (hi, lo) is finite and represents d exactly
PairExact(f, d, hi, lo) == Fin2(f, hi, lo) /\ DEq(DAdd(Val(f, hi), Val(f, lo)), d)
\* both halves are finite and have at most hb significant bits
HalvesFit(f, hb, h, l) == Fin2(f, h, l) /\ SigBits(f, h) <= hb /\ SigBits(f, l) <= hb
\* the error term d - rn is representable (d = x*y exactly, rn = RN(f, d))
ErrRepresentable(f, d, rn) == IsFinite(f, rn) /\ Representable(f, DSub(d, Val(f, rn)))
SplitHalfBits(f, K, cfg) == LET k == CfgK(f, K, cfg) IN Max(k, f.p - k)

(*************************** clauses over facts ****************************)
SumFailsF(dom, isrn, exact) ==
  IF ~dom THEN {} ELSE (IF isrn THEN {} ELSE {"sum_rn"}) \cup (IF exact THEN {} ELSE {"sum_exact"})
SplitFailsF(dom, exact, fit) ==
  IF ~dom THEN {} ELSE (IF exact THEN {} ELSE {"split_exact"}) \cup (IF fit THEN {} ELSE {"split_bits"})
ProdFailsF(dom, isrn, errrep, exact) ==
  IF ~dom THEN {} ELSE (IF isrn THEN {} ELSE {"prod_rn"}) \cup (IF ~errrep \/ exact THEN {} ELSE {"prod_exact"})
Sum3FailsF(dom, isrn, exact) ==
  IF ~dom THEN {} ELSE (IF isrn THEN {} ELSE {"sum3_rn"}) \cup (IF exact THEN {} ELSE {"sum3_exact"})

(*************************** domains and clauses over runs *****************)
\* run = SumRun(f, x, y, fast)
SumDomR(f, x, y, fast, run) == Fin2(f, x, y) /\ run.ok /\ (fast => AbsGe(f, x, y))
SumFailsR(f, x, y, fast, run, s, t) ==
  LET d == DAdd(Val(f, x), Val(f, y))
  IN  SumFailsF(SumDomR(f, x, y, fast, run), IsRNGiven(f, d, RN(f, d), s), PairExact(f, d, s, t))

\* run = SplitRun(f, K, x, cfg)
SplitDomR(f, K, x, cfg, run) == IsFinite(f, x) /\ ((cfg.scale /\ cfg.alg = "n" /\ CfgStd(K, cfg)) \/ run.ok)
SplitFailsR(f, K, x, cfg, run, h, l) ==
  SplitFailsF(SplitDomR(f, K, x, cfg, run), PairExact(f, Val(f, x), h, l), HalvesFit(f, SplitHalfBits(f, K, cfg), h, l))

\* run = ProdRun(f, K, x, y, cfg)
ProdDomR(f, x, y, run) == Fin2(f, x, y) /\ run.ok
ProdErrRepresentable(f, x, y) ==
  LET d == DMul(Val(f, x), Val(f, y)) IN ErrRepresentable(f, d, RN(f, d))
ProdFailsR(f, x, y, run, h, l) ==
  LET d == DMul(Val(f, x), Val(f, y))
      rn == RN(f, d)
  IN  ProdFailsF(ProdDomR(f, x, y, run), IsRNGiven(f, d, rn, h), ErrRepresentable(f, d, rn), PairExact(f, d, h, l))

\* run = Sum3Run(f, x, y, z, fast)
Sum3DomR(f, x, y, z, fast, run) ==
  IsFinite(f, x) /\ Fin2(f, y, z) /\ run.ok /\ run.texact /\ (fast => run.ordered)
Sum3FailsR(f, x, y, z, fast, run, s, t) ==
  LET d == DAdd(DAdd(Val(f, x), Val(f, y)), Val(f, z))
  IN  Sum3FailsF(Sum3DomR(f, x, y, z, fast, run), IsRNGiven(f, d, RN(f, d), s), PairExact(f, d, s, t))
=============================================================================
