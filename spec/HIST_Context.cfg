\* history export: all histories of exactly MaxSteps constructions (alphabet as MC_Context.cfg)
SPECIFICATION Spec
CONSTANTS
  Values <- MC_Values
  Symbols <- MC_Symbols
  Kinds <- MC_Kinds
  SignInKey = TRUE
  MaxSteps = 4
  MaxConst = 2
INVARIANT Emit
CHECK_DEADLOCK FALSE
