\* U1 of C11: next (both directions) and is_power_of_two on all 1024 patterns of T6 = [p = 6, emax = 7, w = 10]
SPECIFICATION Spec
CONSTANTS
  Fmt = "T6"
  Ops = "unary"
  Stride3 = 1
  StrideF = 1
  Stride4 = 1
  Off = 0
INVARIANT Holds
CHECK_DEADLOCK FALSE
