------------------------------ MODULE AccuracyC ------------------------------
(***************************************************************************)
(* C01 - complex-plane accuracy of every complex algorithm (absolute,      *)
(* acos, acosh, asin, asinh, atan, atanh, exp, log, log2, log10, log1p,    *)
(* sqrt, square).  The TRUE value of each function at a floating-point     *)
(* input z = x + iy is SPECIFIED here: every component (real / imaginary   *)
(* part) is a rigorous dyadic interval enclosure computed by FORWARD       *)
(* interval evaluation (Reals.tla) of a well-conditioned formula.  Inputs  *)
(* are floats = exact dyadics, so the polynomial arguments x^2+y^2,        *)
(* 2x+x^2+y^2, (1-x)^2+y^2, (1-x)(1+x)-y^2, 1-x, 1+x are EXACT dyadics     *)
(* before any series or root is applied: no formula below subtracts two    *)
(* rounded quantities of the same sign, which is why tiny results keep     *)
(* their RELATIVE accuracy.  No multiprecision library takes part in a     *)
(* verdict.                                                                *)
(*                                                                         *)
(* FORMULAS (each an identity of real analysis; z = x + iy, finite):       *)
(*  absolute  |z| = sqrt(x^2+y^2): a <=> |z| decided as a^2 <=> x^2+y^2    *)
(*            exactly (a >= 0)                                             *)
(*  square    (x^2 - y^2, 2xy): exact dyadics                              *)
(*  sqrt      principal root u + iv, u >= 0, u^2 - v^2 = x, 2uv = y:       *)
(*            x >= 0: u = sqrt((|z| + x)/2), v = y/(2u);                   *)
(*            x <  0: |v| = sqrt((|z| - x)/2), u = |y|/(2|v|), sign v =    *)
(*            sign y  (sums of non-negative terms only)                    *)
(*  exp       e^x cos y, e^x sin y  (Euler)                                *)
(*  log       Re = (1/2) log1p(s - 1), s = x^2+y^2 exact (log s =          *)
(*            log1p(s-1)); Im = atan2(y, x);  log2, log10: both divided by *)
(*            ln 2, ln 10 = LogP(10)                                       *)
(*  log1p     |1+z|^2 - 1 = 2x + x^2 + y^2 exact: Re = (1/2) log1p of it;  *)
(*            Im = atan2(y, 1 + x)                                         *)
(*  atanh     atanh z = (log(1+z) - log(1-z))/2:  Re = (1/4) log(|1+z|^2 / *)
(*            |1-z|^2) = sign(x) (1/4) log1p(4|x| / ((1-|x|)^2 + y^2))     *)
(*            (argument >= 0);  Im = (1/2) arg((1+z) conj(1-z)) =          *)
(*            (1/2) atan2(2y, (1-x)(1+x) - y^2)  (the two arguments lie in *)
(*            the same open half plane and their cotangents sum to         *)
(*            2/y > 0, so the sum of the angles stays inside (-pi, pi))    *)
(*  atan      atan z = -i atanh(iz)                                        *)
(*  asin      Kahan (Branch cuts for complex elementary functions, 1987):  *)
(*            s1 = sqrt(1-z) = a1 + i b1, s2 = sqrt(1+z) = a2 + i b2       *)
(*            (principal roots as above; 1-x, 1+x exact):                  *)
(*            Re asin z = atan2(x, Re(s1 s2)),   Re(s1 s2) = a1a2+|b1||b2| *)
(*            Im asin z = asinh(Im(conj(s1) s2)) = sign(y) asinh(T),       *)
(*                        T = a1|b2| + |b1|a2                              *)
(*            (b1, b2 have opposite signs: sums of non-negative terms)     *)
(*  acos      Re acos z = 2 atan2(a1, a2),  Im acos z = -Im asin z         *)
(*  asinh     asinh z = -i asin(iz);   acosh z = +-i acos z with the sign  *)
(*            that makes the real part >= 0: (asinh T, sign(y) Re acos z)  *)
(*            asinh t = log1p(t + t^2/(1 + sqrt(1 + t^2)))  for t >= 0     *)
(*                                                                         *)
(* SIGNED ZEROS.  A zero input component enters as value 0 plus its sign   *)
(* bit (sx, sy).  Where a NON-ZERO result depends on that bit the input is *)
(* on a BRANCH CUT (OnCut) and the statement accepts the value of either   *)
(* side: the event is judged with the recorded bit and, if that fails,     *)
(* with the flipped bit (note cut_other_side).  Where a component of the   *)
(* true value is EXACTLY zero its sign is demanded (clause zero_sign) only *)
(* when it is fixed by the oddness / conjugate symmetry of the function in *)
(* the zero input component that produces it (ExpZero: Im f(x +- 0i) =     *)
(* +-0 ..., the IEEE / C99 Annex G convention; equivalently the sign of    *)
(* the one-sided limit); all other exact zeros may have either sign.       *)
(*                                                                         *)
(* CLAUSES for an event (fn, fmt, x, y, wre, wim); fmt is the component    *)
(* format.  NaN inputs: no obligations.  Per component c in {re, im}:      *)
(*  spurious_nan_c   the true component is defined and w_c is NaN          *)
(*  inf_expected_c   the true component is +-infinity (poles log 0,        *)
(*                   log1p(-1), atanh(+-1), atan(+-i); infinite inputs,    *)
(*                   table InfTable) and w_c is not that infinity          *)
(*  zero_expected_c  the true component is exactly 0 and w_c is not a zero *)
(*  zero_sign_c      ... and w_c is the zero of the other sign where the   *)
(*                   sign is demanded (see above)                          *)
(*  wrong_sign_c     the true component is certainly > 0 (< 0) and w_c has *)
(*                   the sign bit set (clear), zeros included              *)
(*  spurious_inf_c   w_c is infinite and RN(true) is certainly finite      *)
(*  ulp_c + sev_*_c  |Ord(w_c) - Ord(RN(t_c))| > 16 certainly (Accuracy's  *)
(*                   frame: closed rounding cells, infinities one lattice  *)
(*                   step beyond +-largest, so a correctly rounded         *)
(*                   overflow is a lattice point) with the severity class  *)
(*                   sev_le64 / sev_le1024 / sev_gt1024                    *)
(* Notes (statistics): beyondT_c (target 3 ULP; 4 for sqrt, log1p, fails   *)
(* certainly), undecided_c / undecidedT_c (a comparison still inconclusive *)
(* after one widening 48->96 / 80->160 bits: never an alarm),              *)
(* cut_other_side, zero_sign_free_c, not_judged_c (components of infinite  *)
(* inputs / poles whose value Annex G does not make unambiguous: see       *)
(* InfTable), nan_input.                                                   *)
(* rateT (event fn = "rate")  k of n inputs drawn from one of the two      *)
(* stated distributions exceeded the target in some component.  The        *)
(* statement allows 0.1%; the clause fails only when k > RateThresholdC(n) *)
(* = the smallest k with P[Bin(n, 10^-3) >= k+1] <= 1/100 by the proved    *)
(* tail bound of Accuracy.tla (re-instantiated for p = 10^-3).             *)
(*                                                                         *)
(* CLAMPING.  The frame compares the true value only with cell ends a,     *)
(* minsub/2 <= |a| <= overflow threshold.  exp(x) for |x| > 2^12 is        *)
(* therefore replaced by its clamp to [2^-20000, 2^20000] (monotonicity:   *)
(* e^x >= e^4096 > 2^5909 for x >= 4096): every comparison with a cell end *)
(* and every sign is unchanged.                                            *)
(***************************************************************************)
EXTENDS Accuracy

ComplexFns == {"absolute", "acos", "acosh", "asin", "asinh", "atan", "atanh", "exp", "log", "log2", "log10",
               "log1p", "sqrt", "square"}
UlpBoundC == 16
TargetC(fn) == IF fn \in {"sqrt", "log1p"} THEN 4 ELSE 3

(*************************** interval helpers ******************************)
IIsZeroPt(X) == DIsZero(X[1]) /\ DIsZero(X[2])
INegIf(b, X) == IF b = 1 THEN INeg(X) ELSE X
SgnBit(v, s) == IF DIsZero(v) THEN s ELSE IF DSign(v) < 0 THEN 1 ELSE 0      \* sign bit of a component
\* product / quotient / sum of NON-NEGATIVE intervals (the only ones the formulas need)
PMul(X, Y, W) == <<DRoundDown(DMul(X[1], Y[1]), W), DRoundUp(DMul(X[2], Y[2]), W)>>
PDiv(X, Y, W) == <<DDivDown(X[1], Y[2], W), DDivUp(X[2], Y[1], W)>>        \* Y > 0
\* atan2(Y, X) for intervals Y >= 0, X >= 0, not both containing 0: increasing in y, decreasing in x
Atan2Q1(Y, X, W) ==
  IF IIsZeroPt(Y) THEN IZero
  ELSE <<(IF DIsZero(Y[1]) THEN DZero ELSE Atan2P(Y[1], X[2], W)[1]), Atan2P(Y[2], X[1], W)[2]>>
\* asinh(T) for an interval T >= 0:  log1p(t + t^2/(1 + sqrt(1 + t^2))), increasing
AsinhNN(T, W) ==
  IF IIsZeroPt(T) THEN IZero
  ELSE LET t2 == ISqr(T, W)
           u == IAdd(T, PDiv(t2, IAdd(IOne, ISqrt(IAdd(IOne, t2, W), W), W), W), W)
       IN  Log1pI(u, W)

(*************************** complex square root ***************************)
\* principal root of x + iy (dyadic points, y's sign bit sy used when y = 0):
\* [a |-> Re >= 0, b |-> |Im| >= 0, sb |-> sign bit of Im]
CSqrt(x, y, sy, W) ==
  LET sb == SgnBit(y, sy)
  IN  IF DIsZero(y) THEN
        (IF DSign(x) >= 0 THEN [a |-> ISqrt(IPt(x), W), b |-> IZero, sb |-> sb]
         ELSE [a |-> IZero, b |-> ISqrt(IPt(DNeg(x)), W), sb |-> sb])
      ELSE LET m == ISqrt(IPt(DAdd(DMul(x, x), DMul(y, y))), W)             \* |z|
               r == ISqrt(IScale(IAdd(m, IPt(DAbs(x)), W), -1), W)           \* sqrt((|z| + |x|)/2) > 0
               q == PDiv(IPt(DAbs(y)), IScale(r, 1), W)                       \* |y| / (2 r)
           IN  IF DSign(x) >= 0 THEN [a |-> r, b |-> q, sb |-> sb] ELSE [a |-> q, b |-> r, sb |-> sb]

(*************************** constants *************************************)
\* ln 10 and the divisors of log2 / log10 at the two widths in use (zero-arity: evaluated once)
Ln10At(W) == LogP(DFromInt(10), W + 8)
Ln10_48 == Ln10At(48)
Ln10_80 == Ln10At(80)
Ln10_96 == Ln10At(96)
Ln10_160 == Ln10At(160)
Ln10W(W) == CASE W = 48 -> Ln10_48 [] W = 80 -> Ln10_80 [] W = 96 -> Ln10_96 [] W = 160 -> Ln10_160
              [] OTHER -> Ln10At(W)
LogBase(fn, W) == IF fn = "log2" THEN Ln2T(W + 8) ELSE Ln10W(W)
\* k pi / 4 (k in 0..4) as an interval
PiQuarter(k, W) == IF k = 0 THEN IZero ELSE IScale(IMulInt(PiT(W + 8), k, W), -2)

(*************************** exp with clamping *****************************)
ClampHi == DPow2(20000)
ClampLo == DPow2(-20000)
ExpBig == DFromInt(4096)
\* enclosure of clamp(e^x * c) for c in the interval C (a sine or cosine)
ExpTimes(x, C, W) ==
  IF DLe(DAbs(x), ExpBig) THEN IMul(ExpP(x, W), C, W)
  ELSE IF DSign(x) > 0 THEN
    LET t == IMul(ExpP(ExpBig, W), C, W)            \* |e^x c| >= |e^4096 c|, same sign
    IN  IF IIsPos(C) THEN <<DMinOf(t[1], ClampHi), ClampHi>>
        ELSE IF IIsNeg(C) THEN <<DNeg(ClampHi), DMaxOf(t[2], DNeg(ClampHi))>>
        ELSE IF IIsZeroPt(C) THEN IZero ELSE <<DNeg(ClampHi), ClampHi>>
  ELSE
    LET t == IMul(ExpP(DNeg(ExpBig), W), C, W)      \* |e^x c| <= |e^-4096 c|, same sign
    IN  IF IIsPos(C) THEN <<ClampLo, DMaxOf(t[2], ClampLo)>>
        ELSE IF IIsNeg(C) THEN <<DMinOf(t[1], DNeg(ClampLo)), DNeg(ClampLo)>>
        ELSE IF IIsZeroPt(C) THEN IZero ELSE t

(*************************** the true values *******************************)
\* All operators: x, y exact dyadic values of the FINITE input components, sx, sy their sign bits,
\* W the working width;  result [re |-> interval, im |-> interval]; an exactly zero component is the
\* point interval IZero.  Poles are excluded by the caller (Pole).
CV(re, im) == [re |-> re, im |-> im]

TSquare(x, y) == CV(IPt(DSub(DMul(x, x), DMul(y, y))), IPt(DShl(DMul(x, y), 1)))

TSqrt(x, y, sy, W) == LET r == CSqrt(x, y, sy, W) IN CV(r.a, INegIf(r.sb, r.b))

TExp(x, y, W) == CV(ExpTimes(x, CosP(y, W), W), IF DIsZero(y) THEN IZero ELSE ExpTimes(x, SinP(y, W), W))

\* atan2 of dyadic points with signed zeros, (y, x) # (0, 0)
Arg(y, sy, x, W) ==
  IF DIsZero(y) THEN (IF DSign(x) > 0 THEN IZero ELSE INegIf(sy, PiT(W + 8)))
  ELSE Atan2P(y, x, W)
\* (1/2) log1p(t) for an exact dyadic t > -1
HalfLog1p(t, W) == IF DIsZero(t) THEN IZero ELSE IScale(Log1pP(t, W), -1)

TLog(x, y, sy, W) == CV(HalfLog1p(DSub(DAdd(DMul(x, x), DMul(y, y)), DOne), W), Arg(y, sy, x, W))
TLogB(fn, x, y, sy, W) ==
  LET l == TLog(x, y, sy, W)
      b == LogBase(fn, W)
  IN  CV(IF IIsZeroPt(l.re) THEN IZero ELSE IDiv(l.re, b, W), IF IIsZeroPt(l.im) THEN IZero ELSE IDiv(l.im, b, W))
TLog1p(x, y, sy, W) ==
  CV(HalfLog1p(DAdd(DShl(x, 1), DAdd(DMul(x, x), DMul(y, y))), W), Arg(y, sy, DAdd(DOne, x), W))

TAtanh(x, y, sx, sy, W) ==
  LET ax == DAbs(x)
      d == DAdd(DMul(DSub(DOne, ax), DSub(DOne, ax)), DMul(y, y))          \* (1-|x|)^2 + y^2 > 0
      re == IF DIsZero(x) THEN IZero
            ELSE INegIf(SgnBit(x, sx), IScale(Log1pI(PDiv(IPt(DShl(ax, 2)), IPt(d), W), W), -2))
      c == DSub(DMul(DSub(DOne, x), DAdd(DOne, x)), DMul(y, y))             \* (1-x)(1+x) - y^2
      im == IScale(Arg(DShl(y, 1), sy, c, W), -1)
  IN  CV(re, im)
\* atan z = -i atanh(iz),  iz = -y + ix
TAtan(x, y, sx, sy, W) ==
  LET t == TAtanh(DNeg(y), x, 1 - sy, sx, W) IN CV(t.im, INeg(t.re))

\* the shared kernel of asin / acos / asinh / acosh at z = x + iy:
\* [a1, a2, den |-> Re(s1 s2) >= 0, T |-> |Im(conj(s1) s2)| >= 0]
Kahan(x, y, sy, W) ==
  LET s1 == CSqrt(DSub(DOne, x), DNeg(y), 1 - sy, W)
      s2 == CSqrt(DAdd(DOne, x), y, sy, W)
  IN  [a1 |-> s1.a, a2 |-> s2.a,
       den |-> IAdd(PMul(s1.a, s2.a, W), PMul(s1.b, s2.b, W), W),
       T |-> IAdd(PMul(s1.a, s2.b, W), PMul(s1.b, s2.a, W), W)]
\* atan2(x, D) for a dyadic point x and an interval D >= 0 (D = 0 only as the exact point 0)
AtanPtOver(x, D, W) ==
  IF DIsZero(x) THEN IZero
  ELSE LET q == Atan2Q1(IPt(DAbs(x)), D, W) IN IF DSign(x) < 0 THEN INeg(q) ELSE q
TAsin(x, y, sy, W) ==
  LET k == Kahan(x, y, sy, W)
  IN  CV(AtanPtOver(x, k.den, W), INegIf(SgnBit(y, sy), AsinhNN(k.T, W)))
TAcos(x, y, sy, W) ==
  LET k == Kahan(x, y, sy, W)
  IN  CV(IScale(Atan2Q1(k.a1, k.a2, W), 1), INegIf(1 - SgnBit(y, sy), AsinhNN(k.T, W)))
TAcosh(x, y, sy, W) ==
  LET k == Kahan(x, y, sy, W)
  IN  CV(AsinhNN(k.T, W), INegIf(SgnBit(y, sy), IScale(Atan2Q1(k.a1, k.a2, W), 1)))
\* asinh z = -i asin(iz),  iz = -y + ix:  (Im asin(iz), -Re asin(iz))
TAsinh(x, y, sx, W) ==
  LET t == TAsin(DNeg(y), x, sx, W) IN CV(t.im, INeg(t.re))

TrueVal(fn, x, y, sx, sy, W) ==
  CASE fn = "square" -> TSquare(x, y)
    [] fn = "sqrt" -> TSqrt(x, y, sy, W)
    [] fn = "exp" -> TExp(x, y, W)
    [] fn = "log" -> TLog(x, y, sy, W)
    [] fn \in {"log2", "log10"} -> TLogB(fn, x, y, sy, W)
    [] fn = "log1p" -> TLog1p(x, y, sy, W)
    [] fn = "atanh" -> TAtanh(x, y, sx, sy, W)
    [] fn = "atan" -> TAtan(x, y, sx, sy, W)
    [] fn = "asin" -> TAsin(x, y, sy, W)
    [] fn = "acos" -> TAcos(x, y, sy, W)
    [] fn = "asinh" -> TAsinh(x, y, sx, W)
    [] fn = "acosh" -> TAcosh(x, y, sy, W)
=============================================================================
