------------------------------ MODULE AccuracyC ------------------------------
(***************************************************************************)
(* C01 - complex-plane accuracy of every complex algorithm (absolute,      *)
(* acos, acosh, asin, asinh, atan, atanh, exp, log, log2, log10, log1p,    *)
(* sqrt, square).  The TRUE value of each function at a floating-point     *)
(* input z = x + iy is SPECIFIED here: every component (real / imaginary   *)
(* part) is a rigorous dyadic interval enclosure computed by FORWARD       *)
(* interval evaluation (Reals.tla) of a well-conditioned formula.  Inputs  *)
(* are floats = exact dyadics, so the polynomial arguments x^2+y^2,        *)
(* 2x+x^2+y^2, (1-x)^2+y^2, (1-x)(1+x)-y^2, 1-x, 1+x are EXACT dyadics     *)
(* before any series or root is applied: no formula below subtracts two    *)
(* rounded quantities of the same sign, which is why tiny results keep     *)
(* their RELATIVE accuracy.  No multiprecision library takes part in a     *)
(* verdict.                                                                *)
(*                                                                         *)
(* FORMULAS (each an identity of real analysis; z = x + iy, finite):       *)
(*  absolute  |z| = sqrt(x^2+y^2): a <=> |z| decided as a^2 <=> x^2+y^2    *)
(*            exactly (a >= 0)                                             *)
(*  square    (x^2 - y^2, 2xy): exact dyadics                              *)
(*  sqrt      principal root u + iv, u >= 0, u^2 - v^2 = x, 2uv = y:       *)
(*            x >= 0: u = sqrt((|z| + x)/2), v = y/(2u);                   *)
(*            x <  0: |v| = sqrt((|z| - x)/2), u = |y|/(2|v|), sign v =    *)
(*            sign y  (sums of non-negative terms only)                    *)
(*  exp       e^x cos y, e^x sin y  (Euler)                                *)
(*  log       Re = (1/2) log1p(s - 1), s = x^2+y^2 exact (log s =          *)
(*            log1p(s-1)); Im = atan2(y, x);  log2, log10: both divided by *)
(*            ln 2, ln 10 = LogP(10)                                       *)
(*  log1p     |1+z|^2 - 1 = 2x + x^2 + y^2 exact: Re = (1/2) log1p of it;  *)
(*            Im = atan2(y, 1 + x)                                         *)
(*  atanh     atanh z = (log(1+z) - log(1-z))/2:  Re = (1/4) log(|1+z|^2 / *)
(*            |1-z|^2) = sign(x) (1/4) log1p(4|x| / ((1-|x|)^2 + y^2))     *)
(*            (argument >= 0);  Im = (1/2) arg((1+z) conj(1-z)) =          *)
(*            (1/2) atan2(2y, (1-x)(1+x) - y^2)  (the two arguments lie in *)
(*            the same open half plane and their cotangents sum to         *)
(*            2/y > 0, so the sum of the angles stays inside (-pi, pi))    *)
(*  atan      atan z = -i atanh(iz)                                        *)
(*  asin      Kahan (Branch cuts for complex elementary functions, 1987):  *)
(*            s1 = sqrt(1-z) = a1 + i b1, s2 = sqrt(1+z) = a2 + i b2       *)
(*            (principal roots as above; 1-x, 1+x exact):                  *)
(*            Re asin z = atan2(x, Re(s1 s2)),   Re(s1 s2) = a1a2+|b1||b2| *)
(*            Im asin z = asinh(Im(conj(s1) s2)) = sign(y) asinh(T),       *)
(*                        T = a1|b2| + |b1|a2                              *)
(*            (b1, b2 have opposite signs: sums of non-negative terms)     *)
(*  acos      Re acos z = 2 atan2(a1, a2),  Im acos z = -Im asin z         *)
(*  asinh     asinh z = -i asin(iz);   acosh z = +-i acos z with the sign  *)
(*            that makes the real part >= 0: (asinh T, sign(y) Re acos z)  *)
(*            asinh t = log1p(t + t^2/(1 + sqrt(1 + t^2)))  for t >= 0     *)
(*                                                                         *)
(* SIGNED ZEROS.  A zero input component enters as value 0 plus its sign   *)
(* bit (sx, sy).  Where a NON-ZERO result depends on that bit the input is *)
(* on a BRANCH CUT (OnCut) and the statement accepts the value of either   *)
(* side: the event is judged with the recorded bit and, if that fails,     *)
(* with the flipped bit (note cut_other_side).  Where a component of the   *)
(* true value is EXACTLY zero its sign is demanded (clause zero_sign) only *)
(* when it is fixed by the oddness / conjugate symmetry of the function in *)
(* the zero input component that produces it (ExpZero: Im f(x +- 0i) =     *)
(* +-0 ..., the IEEE / C99 Annex G convention; equivalently the sign of    *)
(* the one-sided limit); all other exact zeros may have either sign.       *)
(*                                                                         *)
(* CLAUSES for an event (fn, fmt, x, y, wre, wim); fmt is the component    *)
(* format.  NaN inputs: no obligations.  Per component c in {re, im}:      *)
(*  spurious_nan_c   the true component is defined and w_c is NaN          *)
(*  inf_expected_c   the true component is +-infinity (poles log 0,        *)
(*                   log1p(-1), atanh(+-1), atan(+-i); infinite inputs,    *)
(*                   table InfTable = C99 Annex G where the value is the   *)
(*                   limit along every path, e.g. sqrt(x + i inf) = inf +  *)
(*                   i inf, log(-inf + iy) = inf + i pi, asinh(inf + iy) = *)
(*                   inf + i0) and w_c is not that infinity; a finite      *)
(*                   component of such a value (k pi/4, /ln b for log2 /   *)
(*                   log10) is judged by the ulp clause; an infinite       *)
(*                   component on the axis of a cut with a zero other      *)
(*                   component (OnCutInf) accepts either side              *)
(*  zero_expected_c  the true component is exactly 0 and w_c is not a zero *)
(*  zero_sign_c      ... and w_c is the zero of the other sign where the   *)
(*                   sign is demanded (see above)                          *)
(*  wrong_sign_c     the true component is certainly > 0 (< 0) and w_c has *)
(*                   the sign bit set (clear), zeros included              *)
(*  spurious_inf_c   w_c is infinite and RN(true) is certainly finite      *)
(*  ulp_c + sev_*_c  |Ord(w_c) - Ord(RN(t_c))| > 16 certainly (Accuracy's  *)
(*                   frame: closed rounding cells, infinities one lattice  *)
(*                   step beyond +-largest, so a correctly rounded         *)
(*                   overflow is a lattice point) with the severity class  *)
(*                   sev_le64 / sev_le1024 / sev_gt1024                    *)
(* Notes (statistics; the names of Accuracy's frame with the component     *)
(* suffix): beyond3_c (beyond the design target T certainly: T = 3 ULP, 4  *)
(* for sqrt and log1p), undecided_c / undecided3_c (a comparison still     *)
(* inconclusive after one widening 48->96 / 80->160 bits: never an alarm), *)
(* cut_other_side, zero_sign_free_c (an exact zero whose sign is not       *)
(* demanded), not_judged_c (components of infinite inputs / poles whose    *)
(* value is not a path-independent limit: see InfTable), nan_input.        *)
(* On a cut where BOTH readings fail the reading with fewer failing        *)
(* clauses is reported.                                                    *)
(* rateT (event fn = "rate")  k of n inputs drawn from one of the two      *)
(* stated distributions exceeded the target in some component.  The        *)
(* statement allows 0.1%; the clause fails only when k > RateThresholdC(n) *)
(* = the smallest k with P[Bin(n, 10^-3) >= k+1] <= 1/100 by the proved    *)
(* tail bound of Accuracy.tla (re-instantiated for p = 10^-3).             *)
(*                                                                         *)
(* CLAMPING.  The frame compares the true value only with cell ends a,     *)
(* minsub/2 <= |a| <= overflow threshold.  exp(x) for |x| > 2^12 is        *)
(* therefore replaced by its clamp to [2^-20000, 2^20000] (monotonicity:   *)
(* e^x >= e^4096 > 2^5909 for x >= 4096): every comparison with a cell end *)
(* and every sign is unchanged.                                            *)
(***************************************************************************)
EXTENDS Accuracy, FiniteSets

ComplexFns == {"absolute", "acos", "acosh", "asin", "asinh", "atan", "atanh", "exp", "log", "log2", "log10",
               "log1p", "sqrt", "square"}
UlpBoundC == 16
TargetC(fn) == IF fn \in {"sqrt", "log1p"} THEN 4 ELSE 3

(*************************** interval helpers ******************************)
IIsZeroPt(X) == DIsZero(X[1]) /\ DIsZero(X[2])
INegIf(b, X) == IF b = 1 THEN INeg(X) ELSE X
SgnBit(v, s) == IF DIsZero(v) THEN s ELSE IF DSign(v) < 0 THEN 1 ELSE 0      \* sign bit of a component
\* product / quotient / sum of NON-NEGATIVE intervals (the only ones the formulas need)
PMul(X, Y, W) == <<DRoundDown(DMul(X[1], Y[1]), W), DRoundUp(DMul(X[2], Y[2]), W)>>
PDiv(X, Y, W) == <<DDivDown(X[1], Y[2], W), DDivUp(X[2], Y[1], W)>>        \* Y > 0
\* atan2(Y, X) for intervals Y >= 0, X >= 0, not both containing 0: increasing in y, decreasing in x
Atan2Q1(Y, X, W) ==
  IF IIsZeroPt(Y) THEN IZero
  ELSE <<(IF DIsZero(Y[1]) THEN DZero ELSE Atan2P(Y[1], X[2], W)[1]), Atan2P(Y[2], X[1], W)[2]>>
\* asinh(T) for an interval T >= 0:  log1p(t + t^2/(1 + sqrt(1 + t^2))), increasing
AsinhNN(T, W) ==
  IF IIsZeroPt(T) THEN IZero
  ELSE LET t2 == ISqr(T, W)
           u == IAdd(T, PDiv(t2, IAdd(IOne, ISqrt(IAdd(IOne, t2, W), W), W), W), W)
       IN  Log1pI(u, W)

(*************************** complex square root ***************************)
\* principal root of x + iy (dyadic points, y's sign bit sy used when y = 0):
\* [a |-> Re >= 0, b |-> |Im| >= 0, sb |-> sign bit of Im]
CSqrt(x, y, sy, W) ==
  LET sb == SgnBit(y, sy)
  IN  IF DIsZero(y) THEN
        (IF DSign(x) >= 0 THEN [a |-> ISqrt(IPt(x), W), b |-> IZero, sb |-> sb]
         ELSE [a |-> IZero, b |-> ISqrt(IPt(DNeg(x)), W), sb |-> sb])
      ELSE LET m == ISqrt(IPt(DAdd(DMul(x, x), DMul(y, y))), W)             \* |z|
               r == ISqrt(IScale(IAdd(m, IPt(DAbs(x)), W), -1), W)           \* sqrt((|z| + |x|)/2) > 0
               q == PDiv(IPt(DAbs(y)), IScale(r, 1), W)                       \* |y| / (2 r)
           IN  IF DSign(x) >= 0 THEN [a |-> r, b |-> q, sb |-> sb] ELSE [a |-> q, b |-> r, sb |-> sb]

(*************************** constants *************************************)
\* ln 10 and the divisors of log2 / log10 at the two widths in use (zero-arity: evaluated once)
Ln10At(W) == LogP(DFromInt(10), W + 8)
Ln10_48 == Ln10At(48)
Ln10_80 == Ln10At(80)
Ln10_96 == Ln10At(96)
Ln10_160 == Ln10At(160)
Ln10W(W) == CASE W = 48 -> Ln10_48 [] W = 80 -> Ln10_80 [] W = 96 -> Ln10_96 [] W = 160 -> Ln10_160
              [] OTHER -> Ln10At(W)
LogBase(fn, W) == IF fn = "log2" THEN Ln2T(W + 8) ELSE Ln10W(W)
\* k pi / 4 (k in 0..4) as an interval
PiQuarter(k, W) == IF k = 0 THEN IZero ELSE IScale(IMulInt(PiT(W + 8), k, W), -2)

(*************************** exp with clamping *****************************)
ClampHi == DPow2(20000)
ClampLo == DPow2(-20000)
ExpBig == DFromInt(4096)
\* enclosure of clamp(e^x * c) for c in the interval C (a sine or cosine)
ExpTimes(x, C, W) ==
  IF DLe(DAbs(x), ExpBig) THEN IMul(ExpP(x, W), C, W)
  ELSE IF DSign(x) > 0 THEN
    LET t == IMul(ExpP(ExpBig, W), C, W)            \* |e^x c| >= |e^4096 c|, same sign
    IN  IF IIsPos(C) THEN <<DMinOf(t[1], ClampHi), ClampHi>>
        ELSE IF IIsNeg(C) THEN <<DNeg(ClampHi), DMaxOf(t[2], DNeg(ClampHi))>>
        ELSE IF IIsZeroPt(C) THEN IZero ELSE <<DNeg(ClampHi), ClampHi>>
  ELSE
    LET t == IMul(ExpP(DNeg(ExpBig), W), C, W)      \* |e^x c| <= |e^-4096 c|, same sign
    IN  IF IIsPos(C) THEN <<ClampLo, DMaxOf(t[2], ClampLo)>>
        ELSE IF IIsNeg(C) THEN <<DMinOf(t[1], DNeg(ClampLo)), DNeg(ClampLo)>>
        ELSE IF IIsZeroPt(C) THEN IZero ELSE t

(*************************** the true values *******************************)
\* All operators: x, y exact dyadic values of the FINITE input components, sx, sy their sign bits,
\* W the working width;  result [re |-> interval, im |-> interval]; an exactly zero component is the
\* point interval IZero.  Poles are excluded by the caller (Pole).
CV(re, im) == [re |-> re, im |-> im]

TSquare(x, y) == CV(IPt(DSub(DMul(x, x), DMul(y, y))), IPt(DShl(DMul(x, y), 1)))

TSqrt(x, y, sy, W) == LET r == CSqrt(x, y, sy, W) IN CV(r.a, INegIf(r.sb, r.b))

TExp(x, y, W) == CV(ExpTimes(x, CosP(y, W), W), IF DIsZero(y) THEN IZero ELSE ExpTimes(x, SinP(y, W), W))

\* atan2 of dyadic points with signed zeros, (y, x) # (0, 0)
Arg(y, sy, x, W) ==
  IF DIsZero(y) THEN (IF DSign(x) > 0 THEN IZero ELSE INegIf(sy, PiT(W + 8)))
  ELSE Atan2P(y, x, W)
\* (1/2) log1p(t) for an exact dyadic t > -1
HalfLog1p(t, W) == IF DIsZero(t) THEN IZero ELSE IScale(Log1pP(t, W), -1)

TLog(x, y, sy, W) == CV(HalfLog1p(DSub(DAdd(DMul(x, x), DMul(y, y)), DOne), W), Arg(y, sy, x, W))
TLogB(fn, x, y, sy, W) ==
  LET l == TLog(x, y, sy, W)
      b == LogBase(fn, W)
  IN  CV(IF IIsZeroPt(l.re) THEN IZero ELSE IDiv(l.re, b, W), IF IIsZeroPt(l.im) THEN IZero ELSE IDiv(l.im, b, W))
TLog1p(x, y, sy, W) ==
  CV(HalfLog1p(DAdd(DShl(x, 1), DAdd(DMul(x, x), DMul(y, y))), W), Arg(y, sy, DAdd(DOne, x), W))

TAtanh(x, y, sx, sy, W) ==
  LET ax == DAbs(x)
      d == DAdd(DMul(DSub(DOne, ax), DSub(DOne, ax)), DMul(y, y))          \* (1-|x|)^2 + y^2 > 0
      re == IF DIsZero(x) THEN IZero
            ELSE INegIf(SgnBit(x, sx), IScale(Log1pI(PDiv(IPt(DShl(ax, 2)), IPt(d), W), W), -2))
      c == DSub(DMul(DSub(DOne, x), DAdd(DOne, x)), DMul(y, y))             \* (1-x)(1+x) - y^2
      im == IScale(Arg(DShl(y, 1), sy, c, W), -1)
  IN  CV(re, im)
\* atan z = -i atanh(iz),  iz = -y + ix
TAtan(x, y, sx, sy, W) ==
  LET t == TAtanh(DNeg(y), x, 1 - sy, sx, W) IN CV(t.im, INeg(t.re))

\* the shared kernel of asin / acos / asinh / acosh at z = x + iy:
\* [a1, a2, den |-> Re(s1 s2) >= 0, T |-> |Im(conj(s1) s2)| >= 0]
Kahan(x, y, sy, W) ==
  LET s1 == CSqrt(DSub(DOne, x), DNeg(y), 1 - sy, W)
      s2 == CSqrt(DAdd(DOne, x), y, sy, W)
  IN  [a1 |-> s1.a, a2 |-> s2.a,
       den |-> IAdd(PMul(s1.a, s2.a, W), PMul(s1.b, s2.b, W), W),
       T |-> IAdd(PMul(s1.a, s2.b, W), PMul(s1.b, s2.a, W), W)]
\* atan2(x, D) for a dyadic point x and an interval D >= 0 (D = 0 only as the exact point 0)
AtanPtOver(x, D, W) ==
  IF DIsZero(x) THEN IZero
  ELSE LET q == Atan2Q1(IPt(DAbs(x)), D, W) IN IF DSign(x) < 0 THEN INeg(q) ELSE q
TAsin(x, y, sy, W) ==
  LET k == Kahan(x, y, sy, W)
  IN  CV(AtanPtOver(x, k.den, W), INegIf(SgnBit(y, sy), AsinhNN(k.T, W)))
TAcos(x, y, sy, W) ==
  LET k == Kahan(x, y, sy, W)
  IN  CV(IScale(Atan2Q1(k.a1, k.a2, W), 1), INegIf(1 - SgnBit(y, sy), AsinhNN(k.T, W)))
TAcosh(x, y, sy, W) ==
  LET k == Kahan(x, y, sy, W)
  IN  CV(AsinhNN(k.T, W), INegIf(SgnBit(y, sy), IScale(Atan2Q1(k.a1, k.a2, W), 1)))
\* asinh z = -i asin(iz),  iz = -y + ix:  (Im asin(iz), -Re asin(iz))
TAsinh(x, y, sx, W) ==
  LET t == TAsin(DNeg(y), x, sx, W) IN CV(t.im, INeg(t.re))

TrueVal(fn, x, y, sx, sy, W) ==
  CASE fn = "square" -> TSquare(x, y)
    [] fn = "sqrt" -> TSqrt(x, y, sy, W)
    [] fn = "exp" -> TExp(x, y, W)
    [] fn = "log" -> TLog(x, y, sy, W)
    [] fn \in {"log2", "log10"} -> TLogB(fn, x, y, sy, W)
    [] fn = "log1p" -> TLog1p(x, y, sy, W)
    [] fn = "atanh" -> TAtanh(x, y, sx, sy, W)
    [] fn = "atan" -> TAtan(x, y, sx, sy, W)
    [] fn = "asin" -> TAsin(x, y, sy, W)
    [] fn = "acos" -> TAcos(x, y, sy, W)
    [] fn = "asinh" -> TAsinh(x, y, sx, W)
    [] fn = "acosh" -> TAcosh(x, y, sy, W)

(*************************** poles, cuts, exact zeros **********************)
\* finite inputs at which a component of the true value is infinite
Pole(fn, x, y) ==
  CASE fn \in {"log", "log2", "log10"} -> DIsZero(x) /\ DIsZero(y)
    [] fn = "log1p" -> DEq(x, DNeg(DOne)) /\ DIsZero(y)
    [] fn = "atanh" -> DEq(DAbs(x), DOne) /\ DIsZero(y)
    [] fn = "atan" -> DIsZero(x) /\ DEq(DAbs(y), DOne)
    [] OTHER -> FALSE
\* finite inputs on a branch cut: "x" / "y" names the zero component whose sign selects the side, "" off the cuts
OnCut(fn, x, y) ==
  CASE fn \in {"sqrt", "log", "log2", "log10"} -> IF DIsZero(y) /\ DSign(x) < 0 THEN "y" ELSE ""
    [] fn = "log1p" -> IF DIsZero(y) /\ DLt(x, DNeg(DOne)) THEN "y" ELSE ""
    [] fn \in {"asin", "acos", "atanh"} -> IF DIsZero(y) /\ DLt(DOne, DAbs(x)) THEN "y" ELSE ""
    [] fn = "acosh" -> IF DIsZero(y) /\ DLt(x, DOne) THEN "y" ELSE ""
    [] fn \in {"asinh", "atan"} -> IF DIsZero(x) /\ DLt(DOne, DAbs(y)) THEN "x" ELSE ""
    [] OTHER -> ""
\* the same at infinity: an infinite component on the axis of a cut, the other component a zero
OnCutInf(fn, xi, yi, x0, y0, sx) ==
  CASE fn \in {"sqrt", "log", "log2", "log10", "log1p", "acosh"} -> IF y0 /\ xi /\ sx = 1 THEN "y" ELSE ""
    [] fn \in {"asin", "acos", "atanh"} -> IF y0 /\ xi THEN "y" ELSE ""
    [] fn \in {"asinh", "atan"} -> IF x0 /\ yi THEN "x" ELSE ""
    [] OTHER -> ""
\* demanded sign bit of a component of the true value that is EXACTLY zero (2: either sign)
ExpZero(fn, c, sx, sy) ==
  IF c = "im" THEN
    (CASE fn = "square" -> (sx + sy) % 2
       [] fn = "acos" -> 1 - sy
       [] OTHER -> sy)
  ELSE (IF fn \in {"asin", "asinh", "atan", "atanh"} THEN sx ELSE 2)

(*************************** expected components off the enclosures ********)
\* descriptor of a component that is not judged through TrueVal:
\*   [k |-> "free"]                       not judged
\*   [k |-> "inf", s |-> 0 / 1 / 2]       that infinity (2: either)
\*   [k |-> "zero", s |-> 0 / 1 / 2]      a zero (2: either sign)
\*   [k |-> "piq", s |-> 0 / 1, q |-> n]  (-1)^s n pi/4  (divided by ln 2 / ln 10 for log2 / log10)
Free == [k |-> "free"]
InfD(s) == [k |-> "inf", s |-> s]
ZeroD(s) == [k |-> "zero", s |-> s]
PiQ(s, q) == [k |-> "piq", s |-> s, q |-> q]
SgnOfI(X) == IF IIsPos(X) THEN 0 ELSE IF IIsNeg(X) THEN 1 ELSE 2

PoleTable(fn, sx, sy) ==
  CASE fn \in {"log", "log2", "log10", "log1p"} -> CV(InfD(1), Free)
    [] fn = "atanh" -> CV(InfD(sx), Free)
    [] fn = "atan" -> CV(Free, InfD(sy))

\* infinite inputs (C99 Annex G where it is unambiguous = the value is the limit along every path with
\* the given finite component; everything else is Free).  xi, yi: the component is infinite; x0, y0: it
\* is a zero; vy: the value of y when finite
ArgInf(xi, yi, sx, sy) ==                     \* atan2(y, x) with an infinite component
  IF yi /\ ~xi THEN PiQ(sy, 2)
  ELSE IF yi THEN PiQ(sy, IF sx = 0 THEN 1 ELSE 3)
  ELSE IF sx = 0 THEN ZeroD(sy) ELSE PiQ(sy, 4)
InfTable(fn, xi, yi, sx, sy, x0, y0, vy) ==
  CASE fn = "square" ->
         IF xi /\ yi THEN CV(Free, InfD((sx + sy) % 2))
         ELSE IF xi THEN CV(InfD(0), IF y0 THEN Free ELSE InfD((sx + sy) % 2))
         ELSE CV(InfD(1), IF x0 THEN Free ELSE InfD((sx + sy) % 2))
    [] fn = "sqrt" ->
         IF yi THEN CV(InfD(0), InfD(sy))
         ELSE IF sx = 0 THEN CV(InfD(0), ZeroD(sy)) ELSE CV(ZeroD(2), InfD(sy))
    [] fn = "exp" ->
         IF yi THEN CV(Free, Free)
         ELSE IF sx = 1 THEN CV(ZeroD(2), ZeroD(2))
         ELSE IF y0 THEN CV(InfD(0), ZeroD(sy))
         ELSE CV(InfD(SgnOfI(CosP(vy, 64))), InfD(SgnOfI(SinP(vy, 64))))
    [] fn \in {"log", "log2", "log10", "log1p"} -> CV(InfD(0), ArgInf(xi, yi, sx, sy))
    [] fn = "asin" ->
         CV(IF xi /\ yi THEN PiQ(sx, 1) ELSE IF xi THEN PiQ(sx, 2) ELSE ZeroD(sx), InfD(sy))
    [] fn = "asinh" ->
         CV(InfD(sx), IF xi /\ yi THEN PiQ(sy, 1) ELSE IF yi THEN PiQ(sy, 2) ELSE ZeroD(sy))
    [] fn = "acos" ->
         LET a == ArgInf(xi, yi, sx, 0)
         IN  CV(IF a.k = "zero" THEN ZeroD(2) ELSE a, InfD(1 - sy))
    [] fn = "acosh" -> CV(InfD(0), ArgInf(xi, yi, sx, sy))
    [] fn = "atanh" -> CV(ZeroD(sx), PiQ(sy, 2))
    [] fn = "atan" -> CV(PiQ(sx, 2), ZeroD(sy))

ConstI(fn, d, W) ==
  LET v == INegIf(d.s, PiQuarter(d.q, W))
  IN  IF fn \in {"log2", "log10"} THEN IDiv(v, LogBase(fn, W), W) ELSE v

(*************************** verdict of one component **********************)
Suffix(S, c) == {n \o "_" \o c : n \in S}
NoV == [fails |-> {}, notes |-> {}]
FailV(S) == [fails |-> S, notes |-> {}]

\* w against a true value given by Pos (finite, not exactly zero); sg: 0 / 1 / 2 = certainly positive /
\* certainly negative / sign not established
UlpComp(Pos(_, _), f, w, sg, T) ==
  LET ws == IF sg # 2 /\ SignBit(f, w) # sg THEN {"wrong_sign"} ELSE {}
      si == IF IsInf(f, w) /\ WithinNBy(Pos, f, w, 0) = "bad" THEN {"spurious_inf"} ELSE {}
      u == UlpVerdictBy(Pos, f, w, UlpBoundC, T)
  IN  [fails |-> ws \cup si \cup u.fails, notes |-> u.notes]
ZeroComp(f, w, s) ==
  IF ~IsZero(f, w) THEN FailV({"zero_expected"})
  ELSE IF s = 2 THEN [fails |-> {}, notes |-> {"zero_sign_free"}]
  ELSE IF SignBit(f, w) # s THEN FailV({"zero_sign"}) ELSE NoV
\* a component given by a descriptor
DescComp(fn, f, d, w, T) ==
  IF d.k = "free" THEN [fails |-> {}, notes |-> {"not_judged"}]
  ELSE IF IsNaN(f, w) THEN FailV({"spurious_nan"})
  ELSE IF d.k = "inf" THEN
    (IF IsInf(f, w) /\ (d.s = 2 \/ SignBit(f, w) = d.s) THEN NoV ELSE FailV({"inf_expected"}))
  ELSE IF d.k = "zero" THEN ZeroComp(f, w, d.s)
  ELSE LET W0 == Width0(f)
           c1 == ConstI(fn, d, W0)
           c2 == ConstI(fn, d, 2 * W0)
           Pos(a, W) == DPos(a, IF W = W0 THEN c1 ELSE c2)
       IN  UlpComp(Pos, f, w, d.s, T)
\* a component given by its enclosures at the two widths (t1: Width0, t2: twice that)
IvComp(f, t1, t2, w, zs, T) ==
  IF IsNaN(f, w) THEN FailV({"spurious_nan"})
  ELSE IF IIsZeroPt(t1) THEN ZeroComp(f, w, zs)
  ELSE LET W0 == Width0(f)
           Pos(a, W) == DPos(a, IF W = W0 THEN t1 ELSE t2)
           sg == IF SgnOfI(t1) # 2 THEN SgnOfI(t1) ELSE SgnOfI(t2)
       IN  UlpComp(Pos, f, w, sg, T)
Tag(v, c) == [fails |-> Suffix(v.fails, c), notes |-> Suffix(v.notes, c)]
Both(vre, vim) == Merge(Tag(vre, "re"), Tag(vim, "im"))

(*************************** verdict of one event **************************)
FiniteV(fn, f, vx, vy, sx, sy, wre, wim) ==
  LET W0 == Width0(f)
      t1 == TrueVal(fn, vx, vy, sx, sy, W0)
      t2 == TrueVal(fn, vx, vy, sx, sy, 2 * W0)
      T == TargetC(fn)
  IN  Both(IvComp(f, t1.re, t2.re, wre, ExpZero(fn, "re", sx, sy), T),
           IvComp(f, t1.im, t2.im, wim, ExpZero(fn, "im", sx, sy), T))
DescV(fn, f, d, wre, wim) == Both(DescComp(fn, f, d.re, wre, TargetC(fn)), DescComp(fn, f, d.im, wim, TargetC(fn)))

\* |z|: a real-valued result
AbsV(f, x, y, w) ==
  IF IsNaN(f, w) THEN FailV({"spurious_nan_re"})
  ELSE IF IsInf(f, x) \/ IsInf(f, y) THEN Tag(DescComp("absolute", f, InfD(0), w, 3), "re")
  ELSE LET vx == Val(f, x)
           vy == Val(f, y)
           s == DAdd(DMul(vx, vx), DMul(vy, vy))
           Pos(a, W) == IF DSign(a) < 0 THEN "lt" ELSE PosExact(DMul(a, a), s)
       IN  IF DIsZero(s) THEN Tag(ZeroComp(f, w, 2), "re")
           ELSE Tag(UlpComp(Pos, f, w, 0, TargetC("absolute")), "re")

\* both sides of a cut fail: report the reading with fewer failing clauses (the side the result is closer to)
Fewer(v1, v2) == IF Cardinality(v2.fails) < Cardinality(v1.fails) THEN v2 ELSE v1

VerdictC(fn, f, x, y, wre, wim) ==
  IF IsNaN(f, x) \/ IsNaN(f, y) THEN [fails |-> {}, notes |-> {"nan_input"}]
  ELSE IF fn = "absolute" THEN AbsV(f, x, y, wre)
  ELSE LET sx == SignBit(f, x)
           sy == SignBit(f, y)
           xi == IsInf(f, x)
           yi == IsInf(f, y)
           x0 == IsZero(f, x)
           y0 == IsZero(f, y)
           InfV(ax, ay) == DescV(fn, f, InfTable(fn, xi, yi, ax, ay, x0, y0, IF yi THEN DZero ELSE Val(f, y)), wre, wim)
       IN  IF xi \/ yi THEN
             LET cut == OnCutInf(fn, xi, yi, x0, y0, sx)
                 v1 == InfV(sx, sy)
             IN  IF cut = "" \/ v1.fails = {} THEN v1
                 ELSE LET v2 == IF cut = "y" THEN InfV(sx, 1 - sy) ELSE InfV(1 - sx, sy)
                      IN  IF v2.fails = {} THEN [fails |-> {}, notes |-> v2.notes \cup {"cut_other_side"}]
                          ELSE Fewer(v1, v2)
           ELSE LET vx == Val(f, x)
                    vy == Val(f, y)
                    cut == OnCut(fn, vx, vy)
                IN  IF Pole(fn, vx, vy) THEN DescV(fn, f, PoleTable(fn, sx, sy), wre, wim)
                    ELSE IF cut = "" THEN FiniteV(fn, f, vx, vy, sx, sy, wre, wim)
                    ELSE LET v1 == FiniteV(fn, f, vx, vy, sx, sy, wre, wim)
                         IN  IF v1.fails = {} THEN v1
                             ELSE LET v2 == IF cut = "y" THEN FiniteV(fn, f, vx, vy, sx, 1 - sy, wre, wim)
                                            ELSE FiniteV(fn, f, vx, vy, 1 - sx, sy, wre, wim)
                                  IN  IF v2.fails = {} THEN [fails |-> {}, notes |-> v2.notes \cup {"cut_other_side"}]
                                      ELSE Fewer(v1, v2)

(*************************** the target rate *******************************)
\* Accuracy!TailBound for a general p = 1/pinv (same proof: b(k)/(1 - rho) with rho = n p/((k+1)(1-p)))
TailBoundP(n, k, pinv) ==
  LET np == IDivInt(IPt(n), pinv, RW)
      rho == IDiv(IPt(n), IMulInt(IInt(pinv - 1), k + 1, RW), RW)
      valid == DLt(rho[2], DOne)
      ex == ExpI(INeg(IDivInt(ISub(IPt(n), IInt(k), RW), pinv, RW)), RW)
      bk == IMul(PowOverFact(np, k, 1, IOne), ex, RW)
  IN  IF ~valid THEN <<FALSE, DOne>> ELSE <<TRUE, IDiv(bk, ISub(IOne, rho, RW), RW)[2]>>
RECURSIVE RateThresholdPFrom(_, _, _)
RateThresholdPFrom(n, k, pinv) ==
  LET tb == TailBoundP(n, k + 1, pinv)
  IN  IF tb[1] /\ DLe(DMul(tb[2], DFromInt(100)), DOne) THEN k ELSE RateThresholdPFrom(n, k + 1, pinv)
RatePInv == 1000
RateThresholdC(n) == RateThresholdPFrom(n, 0, RatePInv)
RateFailsC(nNat, kNat) ==
  IF NCmp(kNat, NFromInt(RateThresholdC(DFromNat(nNat)))) > 0 THEN {"rateT"} ELSE {}
=============================================================================
