----------------------------- MODULE MC_PrinterHLO -----------------------------
(***************************************************************************)
(* U1 for C06: the StableHLO printing POLICY, transcribed, on all small    *)
(* DAGs (the XLA client printer is PrinterBase.tostring, which MC_Printer  *)
(* covers).                                                                *)
(*   stablehlo.Printer.tostring (targets/stablehlo.py): a node whose name  *)
(*     is already in defined_refs prints as `$name`; otherwise the name is *)
(*     added to defined_refs FIRST, then the node prints as                *)
(*     `(Op:$name operands...)` when need_ref[name] (the binding is inline *)
(*     at the first occurrence in print order), else `(Op operands...)`;   *)
(*     operands are printed in order.  need_ref is compute_need_ref of     *)
(*     expr.py (MC_Printer!NeedRef).                                       *)
(*   The text is read the way the independent parser reads it: the         *)
(*     binding `(Op:$name ...)` is the statement `assign name = (Op ...)`  *)
(*     at the place where the term ENDS in print order, followed by a use. *)
(* Every DAG with <= MaxNodes nodes x every force_ref subset (x, config    *)
(* Alias, every way of giving two distinct operation nodes the same name)  *)
(* is printed by the transcription and run through the FAPrinterHLO        *)
(* machine: no name bound twice, every `$name` use follows its binding,    *)
(* every operand denotes the node required there, the pattern's result     *)
(* denotes the root.                                                       *)
(* MC_PrinterHLO.cfg        unique names: SoundS must hold.                *)
(* MC_PrinterHLO_alias.cfg  two nodes share a name: SoundS must be         *)
(*                          VIOLATED (non-vacuity).                        *)
(* Constants: MaxNodes (4 quick / 5 thorough), Alias.                      *)
(***************************************************************************)
EXTENDS MC_Printer, FAPrinterHLO

RECURSIVE ToStrS(_, _, _, _, _), ToStrOpsS(_, _, _, _, _, _, _)
ToStrS(d, nr, al, n, st) ==
  LET nm == NameOf(al, n)
  IN  IF nm \in st.defined THEN
        [st |-> [st EXCEPT !.rows = Append(@, Row("var", <<>>, NameStr(nm)))], t |-> Len(st.rows) + 1]
      ELSE LET st0 == [st EXCEPT !.defined = @ \cup {nm}]          \* defined_refs.add(expr.ref) comes first
               x == ToStrOpsS(d, nr, al, n, 1, st0, <<>>)
               st1 == [x.st EXCEPT !.rows = Append(@, Row("sx:" \o d[n].k, x.ts, ""))]
               t1 == Len(st1.rows)
           IN  IF nr[nm] THEN
                 [st |-> [defined |-> st1.defined,
                          stmts |-> Append(st1.stmts, [op |-> "assign", var |-> NameStr(nm), ty |-> "", t |-> t1]),
                          rows |-> Append(st1.rows, Row("var", <<>>, NameStr(nm)))],
                  t |-> t1 + 1]
               ELSE [st |-> st1, t |-> t1]
ToStrOpsS(d, nr, al, n, j, st, ts) ==
  IF j > Len(d[n].a) THEN [st |-> st, ts |-> ts]
  ELSE LET x == ToStrS(d, nr, al, d[n].a[j], st) IN ToStrOpsS(d, nr, al, n, j + 1, x.st, Append(ts, x.t))

ProgramS(d, F, al) ==
  LET nr == NeedRef(d, F, al)
      st0 == [defined |-> {NameOf(al, n) : n \in Params(d)}, stmts |-> <<>>, rows |-> <<>>]
      x == ToStrS(d, nr, al, Len(d), st0)
      ps == SetToSeq(Params(d))
  IN  [params |-> [j \in 1..Len(ps) |-> [name |-> NameStr(ps[j]), ty |-> ""]],
       stmts |-> Append(x.st.stmts, [op |-> "return", var |-> "", ty |-> "", t |-> x.t]),
       rows |-> x.st.rows, ret |-> ""]

ToyImplS(d) == [n \in 1..Len(d) |-> IF d[n].k = "u" THEN {P("sx:u", <<H(1)>>)}
                                    ELSE IF d[n].k = "b" THEN {P("sx:b", <<H(1), H(2)>>)} ELSE {}]
VerdictS(d, F, al) ==
  LET cx == Context("stablehlo", NodeTable(d), ToyImplS(d), ProgramS(d, F, al))
  IN  ProgramVerdict(cx, DenAllH(cx, [ds |-> <<>>, pf |-> <<>>], 1), Len(d)).fails
SoundS == VerdictS(dag, force, alias) = {}
=============================================================================
