--------------------------- MODULE Trace_ArgReduce --------------------------
(***************************************************************************)
(* U3 for C17: every recorded call of the real                             *)
(* floating_point_algorithms.argument_reduction_exponent / _trigonometric  *)
(* (NumpyContext, scalar argument - the way the package's tests call them) *)
(* is judged by ArgReduce.tla.                                             *)
(*                                                                         *)
(* Events (one ndjson line each; floats are raw bit patterns as limb lists,*)
(* nothing is interpreted by the driver):                                  *)
(*   fn "exp":  fmt, x, k, r, lo (= c), raised                             *)
(*   fn "trig": fmt, x, k, r, lo (= t), n (witness N, BigInt signed        *)
(*              integer <<neg, limbs>>), raised                            *)
(* raised = "" or the name of the exception / result-type problem.         *)
(* Notes (statistics, never failures): out_of_domain, strict_only;         *)
(* "undecided" is turned into a machinery failure by the driver.           *)
(***************************************************************************)
EXTENDS ArgReduce, TraceKit
VARIABLE l

Verdict(e) ==
  LET f == FmtOf(e.fmt)
  IN  IF e.raised # "" THEN
        [fails |-> IF (e.fn = "exp" /\ InDomExp(f, e.x)) \/ (e.fn = "trig" /\ InDomTrig(f, e.x))
                   THEN {"raised"} ELSE {},
         notes |-> {}]
      ELSE IF e.fn = "exp" THEN ExpVerdict(f, e.x, e.k, e.r, e.lo)
      ELSE TrigVerdict(f, e.x, e.k, e.r, e.lo, e.n)

Init == l = 1
Next == /\ l <= Len(Trace)
        /\ LET e == Trace[l]
               v == Verdict(e)
           IN  /\ Report(e, v.fails)
               /\ (IF v.notes = {} THEN TRUE ELSE PrintT(<<"NOTE", e.id, v.notes>>))
        /\ l' = l + 1
Spec == Init /\ [][Next]_l
=============================================================================
