\* quick, exhaustive: toy format [p |-> 2, emax |-> 3, w |-> 5] (32 patterns, 28 finite, 2 subnormal),
\* ALL monotone triples x <= y <= z of finite patterns, all 2 x 2 collapse thresholds
SPECIFICATION Spec
CONSTANTS
  Fmt <- MC_F25
  Thr <- MC_ThrAll2
  Triples = TRUE
INVARIANT Laws
CHECK_DEADLOCK FALSE
