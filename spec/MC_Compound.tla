---------------------------- MODULE MC_Compound ----------------------------
(***************************************************************************)
(* U1 for C11: the TLA+ transcriptions of the compound algorithms          *)
(* (Compound.tla part 3) are run on EVERY operand tuple - or on the stride *)
(* sample Off, Off + Stride, ... of the tuples - of a toy IEEE format and  *)
(* their results are judged by the property clauses (Compound.tla part 1). *)
(*                                                                         *)
(* Formats: T3 = [p = 3, emax = 3, w = 6] (64 patterns, 56 finite),        *)
(* T4 = [p = 4, emax = 3, w = 7] (128), T5 = [p = 5, emax = 7, w = 9]      *)
(* (512), T6 = [p = 6, emax = 7, w = 10] (1024).  Tuples are numbered      *)
(* x + NP*y + NP^2*z + NP^3*w over ALL patterns (nan and inf included: the *)
(* domain predicates must reject them).  Stride3 applies to the triples of *)
(* sum3 and muladd, StrideF to those of fma, Stride4 to the quadruples     *)
(* (sum4, dot2); strides are primes (coprime to NP).  Unary operations     *)
(* (next in both directions, is_power_of_two) are always exhaustive.       *)
(* All 32 variants of the fused multiply-add (copy apmath.fma /            *)
(* apmath_algorithms.fma_real x a7 a8 a9 apmath x fix_overflow x           *)
(* possibly_zero_z) are run on each triple of the "fma" operation.         *)
(*                                                                         *)
(* Spec: one behaviour per (operation, tuple); the step Run stores the set *)
(* of violated <<clause, variant>> pairs.  Invariant Holds: the set is     *)
(* empty, except that a fused multiply-add variant with fix_overflow may   *)
(* fail fma_1ulp_prodtop (the documented fallback of Dekker's product when *)
(* the product of the high parts overflows) or fma_1ulp_restop (RN(x*y)+z  *)
(* overflows although x*y+z does not): the known findings of C11; such     *)
(* tuples are printed as <<"K", ...>> and counted by the driver.  Any      *)
(* other failure is printed as <<"U1FAIL", ...>> (the run continues) and   *)
(* makes the driver stop with a machinery failure: the design, not the     *)
(* code, would be inconsistent.                                            *)
(*                                                                         *)
(* SpecDom (run with -coverage 1): the same tuples, only the documented    *)
(* domain predicate is evaluated; the coverage counts of the In_<op> /     *)
(* Out_<op> actions show that no domain guard is vacuous (or trivial).     *)
(* (-coverage cannot be used on Spec itself: TLC's cost model unfolds the  *)
(* call tree of the transcriptions and runs out of memory.)                *)
(*                                                                         *)
(* With UseTabs = TRUE the cfg replaces XAdd, XMul, XNeg, XAbs, XLt, XLe,  *)
(* XEq, Val and the constants C... by lookups in the tables written by MC_CompoundTab          *)
(* (stage 1) from the very definitions they replace: pure memoisation.     *)
(***************************************************************************)
EXTENDS Compound, TLC, Json, IOUtils

CONSTANTS Fmt, Ops, Stride3, StrideF, Stride4, Off
T3 == [p |-> 3, emax |-> 3, w |-> 6]
T4 == [p |-> 4, emax |-> 3, w |-> 7]
T5 == [p |-> 5, emax |-> 7, w |-> 9]
T6 == [p |-> 6, emax |-> 7, w |-> 10]
F == CASE Fmt = "T3" -> T3 [] Fmt = "T4" -> T4 [] Fmt = "T5" -> T5 [] Fmt = "T6" -> T6
NP == Pow2(F.w)

Pat(n) == NFromInt(n)
Idx(x) == IF x = <<>> THEN 1 ELSE x[1] + 1            \* patterns of w <= 15 bits: one limb
TabRow(t, a) == JsonDeserialize(IOEnv.C11_TAB_DIR \o "/" \o t \o "_" \o ToString(a) \o ".json")
AddTab == [a \in 1..NP |-> TabRow("add", a)] \o <<>>
MulTab == [a \in 1..NP |-> TabRow("mul", a)] \o <<>>
UnaTab == [a \in 1..NP |-> TabRow("una", a)] \o <<>>
\* signed ordinal as a native integer (w <= 15)
OrdInt == [a \in 1..NP |-> ZToInt(UnaTab[a][5])] \o <<>>
TabAdd(f, x, y) == AddTab[Idx(x)][Idx(y)]
TabMul(f, x, y) == MulTab[Idx(x)][Idx(y)]
TabNeg(f, x) == UnaTab[Idx(x)][1]
TabAbs(f, x) == UnaTab[Idx(x)][2]
TabVal(f, x) == UnaTab[Idx(x)][3]
TabOk(x, y) == UnaTab[Idx(x)][4] = 0 /\ UnaTab[Idx(y)][4] = 0
TabLt(f, x, y) == TabOk(x, y) /\ OrdInt[Idx(x)] < OrdInt[Idx(y)]
TabLe(f, x, y) == TabOk(x, y) /\ OrdInt[Idx(x)] <= OrdInt[Idx(y)]
TabEq(f, x, y) == TabOk(x, y) /\ OrdInt[Idx(x)] = OrdInt[Idx(y)]
\* the constants of the algorithms (computed once by stage 1 from the definitions they replace)
Consts == TabRow("const", 0)
TabCOne(f) == Consts[1]
TabC32(f) == Consts[2]
TabC98(f) == Consts[3]
TabC78(f) == Consts[4]
TabCQ(f) == Consts[5]
TabCP(f) == Consts[6]
TabCQ13(f) == Consts[7]
TabCP13(f) == Consts[8]
TabCSplitN(f) == Consts[9]
TabCSplitC(f) == Consts[10]
TabCSplitInvN(f) == Consts[11]
TabCXMax(f) == Consts[12]
TabCLargest(f) == Consts[13]
TabCNext(f) == Consts[14]

\* operations
Unary == {"next", "pow2"}
Triples == {"sum3", "muladd", "fma"}
Quads == {"sum4", "dot2"}
OpSet == CASE Ops = "unary" -> Unary [] Ops = "multi" -> Triples \cup Quads [] OTHER -> {Ops}
NTuples(o) == IF o \in Unary THEN NP ELSE IF o \in Triples THEN NP * NP * NP ELSE NP * NP * NP * NP
StrideOf(o) == IF o \in Unary THEN 1 ELSE IF o = "fma" THEN StrideF ELSE IF o \in Triples THEN Stride3 ELSE Stride4
OffOf(o) == IF o \in Unary THEN 0 ELSE Off
Indices(o) == {OffOf(o) + StrideOf(o) * k : k \in 0..((NTuples(o) - 1 - OffOf(o)) \div StrideOf(o))}
\* variants of the fused multiply-add: <<"fma", copy, algorithm, fix_overflow, possibly_zero_z>>
AllFma == {<<"fma", c, a, fo, pz>> : c \in {"apmath", "algo"}, a \in {"a7", "a8", "a9", "apmath"},
                                      fo \in BOOLEAN, pz \in BOOLEAN}

VARIABLES op, i, ph, dom, fails
vars == <<op, i, ph, dom, fails>>

X == Pat(i % NP)
Y == Pat((i \div NP) % NP)
Z == Pat((i \div (NP * NP)) % NP)
W == Pat((i \div (NP * NP * NP)) % NP)
Qc == CQ(F)
Pc == CP(F)
Cc == CSplitC(F)

Domain ==
  CASE op = "next" -> NextDomain(F, X, TRUE) \/ NextDomain(F, X, FALSE)
    [] op = "pow2" -> Pow2Domain(F, X)
    [] op = "sum3" -> QuarterDomain(F, <<X, Y, Z>>)
    [] op = "sum4" -> QuarterDomain(F, <<X, Y, Z, W>>)
    [] op = "muladd" -> MulAddDomain(F, X, Y, Z)
    [] op = "dot2" -> Dot2Domain(F, X, Y, Z, W)
    [] op = "fma" -> FmaDomain(F, X, Y, Z)

Tag(s, v) == {<<c, v>> : c \in s}
FmaCheck ==
  LET d == FmaDomain(F, X, Y, Z)
      rn == RN(F, FMAExact(F, X, Y, Z))
      m1 == TDekker(F, X, Y, CSplitN(F), TRUE, TRUE)
      m0 == TDekker(F, X, Y, CSplitN(F), TRUE, FALSE)
  IN  IF ~d THEN {}
      ELSE UNION {Tag(FmaFailsC(F, X, Y, Z, d, rn,
                                TFmaM(F, v[2], v[3], v[4], v[5], IF v[4] THEN m1 ELSE m0, Z), v[4]), v)
                  : v \in AllFma}
Check ==
  CASE op = "next" -> Tag(NextFails(F, X, TRUE, TNext(F, X, TRUE)), "up")
                      \cup Tag(NextFails(F, X, FALSE, TNext(F, X, FALSE)), "down")
    [] op = "pow2" -> Tag(Pow2Fails(F, X, FALSE, TIsPow2Default(F, X)), "default")
                      \cup Tag(Pow2Fails(F, X, FALSE, TIsPow2(F, X, Qc, Pc)), "QP")
    [] op = "sum3" -> LET q == T3Sum(F, X, Y, Z, Qc, Pc) IN Tag(Sum3Fails(F, X, Y, Z, q[1], q[2], q[3]), "-")
    [] op = "sum4" -> Tag(Sum4Fails(F, X, Y, Z, W, T4Sum(F, X, Y, Z, W, Qc, Pc)), "-")
    [] op = "muladd" -> Tag(MulAddFails(F, X, Y, Z, TMulAdd(F, X, Y, Z, Cc, Qc, Pc)), "-")
    [] op = "dot2" -> Tag(Dot2Fails(F, X, Y, Z, W, TDot2(F, X, Y, Z, W, Cc, Qc, Pc)), "-")
    [] op = "fma" -> FmaCheck

Init == /\ op \in OpSet /\ i \in Indices(op) /\ ph = 0 /\ dom = FALSE /\ fails = {}

Run == /\ ph = 0 /\ ph' = 1
       /\ fails' = Check
       /\ UNCHANGED <<op, i, dom>>
Spec == Init /\ [][Run]_vars

IsKnown(c) == op = "fma" /\ c[1] \in {"fma_1ulp_prodtop", "fma_1ulp_restop"} /\ c[2][4]
Holds ==
  IF fails = {} THEN TRUE
  ELSE IF \A c \in fails : IsKnown(c) THEN PrintT(<<"K", i, fails>>)
  ELSE PrintT(<<"U1FAIL", op, i, X, Y, Z, W, fails>>)
HoldsStrict == \A c \in fails : IsKnown(c)

(* domain-only specification for -coverage *)
RunDom == /\ ph = 0 /\ ph' = 1 /\ dom' = Domain /\ UNCHANGED <<op, i, fails>>
\* (each action is written out: TLC's coverage names an action after the definition that contains it)
In_next == ph = 1 /\ op = "next" /\ dom /\ ph' = 2 /\ UNCHANGED <<op, i, dom, fails>>
Out_next == ph = 1 /\ op = "next" /\ ~dom /\ ph' = 2 /\ UNCHANGED <<op, i, dom, fails>>
In_pow2 == ph = 1 /\ op = "pow2" /\ dom /\ ph' = 2 /\ UNCHANGED <<op, i, dom, fails>>
Out_pow2 == ph = 1 /\ op = "pow2" /\ ~dom /\ ph' = 2 /\ UNCHANGED <<op, i, dom, fails>>
In_sum3 == ph = 1 /\ op = "sum3" /\ dom /\ ph' = 2 /\ UNCHANGED <<op, i, dom, fails>>
Out_sum3 == ph = 1 /\ op = "sum3" /\ ~dom /\ ph' = 2 /\ UNCHANGED <<op, i, dom, fails>>
In_sum4 == ph = 1 /\ op = "sum4" /\ dom /\ ph' = 2 /\ UNCHANGED <<op, i, dom, fails>>
Out_sum4 == ph = 1 /\ op = "sum4" /\ ~dom /\ ph' = 2 /\ UNCHANGED <<op, i, dom, fails>>
In_muladd == ph = 1 /\ op = "muladd" /\ dom /\ ph' = 2 /\ UNCHANGED <<op, i, dom, fails>>
Out_muladd == ph = 1 /\ op = "muladd" /\ ~dom /\ ph' = 2 /\ UNCHANGED <<op, i, dom, fails>>
In_dot2 == ph = 1 /\ op = "dot2" /\ dom /\ ph' = 2 /\ UNCHANGED <<op, i, dom, fails>>
Out_dot2 == ph = 1 /\ op = "dot2" /\ ~dom /\ ph' = 2 /\ UNCHANGED <<op, i, dom, fails>>
In_fma == ph = 1 /\ op = "fma" /\ dom /\ ph' = 2 /\ UNCHANGED <<op, i, dom, fails>>
Out_fma == ph = 1 /\ op = "fma" /\ ~dom /\ ph' = 2 /\ UNCHANGED <<op, i, dom, fails>>
NextDom == \/ RunDom
           \/ In_next \/ Out_next \/ In_pow2 \/ Out_pow2 \/ In_sum3 \/ Out_sum3 \/ In_sum4 \/ Out_sum4
           \/ In_muladd \/ Out_muladd \/ In_dot2 \/ Out_dot2 \/ In_fma \/ Out_fma
SpecDom == Init /\ [][NextDom]_vars
TypeOK == ph \in 0..2
=============================================================================
