------------------------------- MODULE MC_EFT -------------------------------
(***************************************************************************)
(* U1 for C10: exhaustive small-scope check of the design.  The            *)
(* transcriptions of EFT.tla (2Sum, Fast2Sum, both Veltkamp splitter       *)
(* variants with every option, Dekker's product on every splitter          *)
(* configuration, the three-term sum) are run in IEEE.tla arithmetic on    *)
(* ALL finite operands / ordered pairs of toy formats                      *)
(*    T4 = [p = 4, emax = 3, w = 7]   (112 finite patterns, s = 2)         *)
(*    T5 = [p = 5, emax = 7, w = 9]   (480 finite patterns, s = 3; odd p)  *)
(*    T6 = [p = 6, emax = 7, w = 10], T7 = [p = 7, emax = 7, w = 11]       *)
(*         (splitter only)                                                 *)
(* (all with emax = 2^(w-p-1) - 1, subnormals, the overflow edge; emax >=  *)
(* s + 1 so that 2^-s * x is exact for |x| >= 1 as in the real formats)    *)
(* and the clause sets of EFT.tla must come out empty: each relation holds *)
(* on the domain the spec computes.                                        *)
(*                                                                         *)
(* One state per (format, first operand x, relation): the step evaluates   *)
(* the relation for EVERY second operand and stores                        *)
(*    cnt = <<#in-domain, #in the exact-clause domain, #violating>>        *)
(* (printed as <<"CNT", fmt, rel, x, cnt>>; the driver sums them: domain   *)
(* guards must not be vacuous).  Invariant Holds: no violating operand for *)
(* the relations in MustHold.  (TLC's -coverage cannot be used here: its   *)
(* cost model inlines the operator tree and runs out of memory.)           *)
(*                                                                         *)
(* Relations: sum2, fast; split:<cfg>, prod:<cfg> for cfg in               *)
(*   nCS nCU  floating_point_algorithms.split_veltkamp with C = 2^s+1,     *)
(*            scale on / off                                               *)
(*   cC       the classical splitter, C = 2^s+1                            *)
(*   nDS nDU  floating_point_algorithms.split_veltkamp with C = None (the  *)
(*            default constant, 2^s+1 since repo commit 92b9285)           *)
(*   nNS nNU  the same splitter with the multiplier N = 2^s (the default   *)
(*            before 92b9285).  NOT in MustHold: a negative control - the  *)
(*            model shows it violates split_bits / prod_exact when p is    *)
(*            even (T4, T6); the driver requires the counts to be > 0.     *)
(*   splitk   every split point 2 <= k <= p-2, both algorithms, no scaling *)
(*   sum3     the three-term sum (third operand: every fifth pattern)      *)
(* Witness relations (wrong algorithms must violate for some operand; the  *)
(* driver checks the counts are > 0): wit_fast (Fast2Sum with |x| < |y|    *)
(* judged as 2Sum), wit_split_c (constant 2^(s-2)+1), wit_noclamp (the     *)
(* x_max clamp removed), wit_drop (Dekker without the low*low term),       *)
(* wit_prod_c (Dekker on halves split with 2^(s-2)+1).                     *)
(*                                                                         *)
(* Constants: PairFmts / SplitFmts / TripleFmts = names of the formats for *)
(* the binary / unary / three-term relations; HalfFmts = formats whose     *)
(* FIRST operand of a binary / three-term relation is restricted to sign   *)
(* bit 0 (every relation is odd-symmetric: negating all operands negates   *)
(* all results) and whose pair relations leave out the witnesses that the  *)
(* smaller format already provides.                                        *)
(***************************************************************************)
EXTENDS EFT, TLC, FiniteSets
CONSTANTS PairFmts, SplitFmts, TripleFmts, HalfFmts

T4 == [p |-> 4, emax |-> 3, w |-> 7]
T5 == [p |-> 5, emax |-> 7, w |-> 9]
T6 == [p |-> 6, emax |-> 7, w |-> 10]
T7 == [p |-> 7, emax |-> 7, w |-> 11]
FmtRec(n) == CASE n = "T4" -> T4 [] n = "T5" -> T5 [] n = "T6" -> T6 [] n = "T7" -> T7

MC_None == {}
MC_T4 == {"T4"}
MC_T5 == {"T5"}
MC_T45 == {"T4", "T5"}
MC_T4567 == {"T4", "T5", "T6", "T7"}

VARIABLES fn, x, rel, cnt, ph
vars == <<fn, x, rel, cnt, ph>>

F == FmtRec(fn)
\* the constants of each toy format (constant-level definitions: TLC evaluates them once)
K4 == FConsts(T4)
K5 == FConsts(T5)
K6 == FConsts(T6)
K7 == FConsts(T7)
K == CASE fn = "T4" -> K4 [] fn = "T5" -> K5 [] fn = "T6" -> K6 [] fn = "T7" -> K7
X == NFromInt(x)
FinPats(f) == {n \in 0..(Pow2(f.w) - 1) : IsFinite(f, NFromInt(n))}

Cfg(alg, cg, c, scale) == [alg |-> alg, cg |-> cg, c |-> c, scale |-> scale]
StdCfg(name) ==
  CASE name = "nNS" -> Cfg("n", TRUE, K.N, TRUE)
    [] name = "nNU" -> Cfg("n", TRUE, K.N, FALSE)
    [] name = "nDS" -> Cfg("n", FALSE, <<>>, TRUE)
    [] name = "nDU" -> Cfg("n", FALSE, <<>>, FALSE)
    [] name = "nCS" -> Cfg("n", TRUE, K.C, TRUE)
    [] name = "nCU" -> Cfg("n", TRUE, K.C, FALSE)
    [] name = "cC" -> Cfg("c", FALSE, <<>>, FALSE)
CfgNames == {"nNS", "nNU", "nDS", "nDU", "nCS", "nCU", "cC"}
KCfg(alg, k) == Cfg(alg, TRUE, RN(F, DAdd(DPow2(k), DOne)), FALSE)

PairRels == {"sum2", "fast", "wit_fast", "wit_drop", "wit_prod_c"} \cup {"prod:" \o c : c \in CfgNames}
SplitRels == {"splitk", "wit_split_c", "wit_noclamp"} \cup {"split:" \o c : c \in CfgNames}
MustHold == {"sum2", "fast", "splitk", "sum3"} \cup {"prod:" \o c : c \in {"nCS", "nCU", "nDS", "nDU", "cC"}}
            \cup {"split:" \o c : c \in {"nCS", "nCU", "nDS", "nDU", "cC"}}
CfgOf(r) == CHOOSE c \in CfgNames : r = "prod:" \o c \/ r = "split:" \o c

B2N(b) == IF b THEN 1 ELSE 0
Code(ind, ex, bad) == B2N(ind) + 2 * B2N(ex) + 4 * B2N(bad)

(*************************** per-operand classification ********************)
PairCode(r, y) ==
  CASE r = "sum2" -> LET run == SumRun(F, X, y, FALSE)
                     IN  Code(SumDomR(F, X, y, FALSE, run), FALSE, SumFailsR(F, X, y, FALSE, run, run.s, run.t) # {})
    [] r = "fast" -> LET run == SumRun(F, X, y, TRUE)
                     IN  Code(SumDomR(F, X, y, TRUE, run), FALSE, SumFailsR(F, X, y, TRUE, run, run.s, run.t) # {})
    [] r = "wit_fast" -> LET run == SumRun(F, X, y, TRUE)
                             ind == run.ok /\ ~AbsGe(F, X, y)
                         IN  Code(ind, FALSE, ind /\ SumFailsR(F, X, y, FALSE, SumRun(F, X, y, FALSE), run.s, run.t) # {})
    [] r = "wit_drop" -> LET cfg == StdCfg("cC")
                             sx == SplitRun(F, K, X, cfg)
                             sy == SplitRun(F, K, y, cfg)
                             h == XMul(F, X, y)
                             t1 == XAdd(F, XNeg(F, h), XMul(F, sx.h, sy.h))
                             t2 == XAdd(F, t1, XMul(F, sx.h, sy.l))
                             t3 == XAdd(F, t2, XMul(F, sx.l, sy.h))
                             run == ProdRun(F, K, X, y, cfg)
                         IN  Code(run.ok, FALSE, ProdFailsR(F, X, y, run, h, t3) # {})
    [] r = "wit_prod_c" -> IF SplitS(F) < 3 THEN 0
                           ELSE LET w == ProdRun(F, K, X, y, KCfg("c", SplitS(F) - 2))
                                    run == ProdRun(F, K, X, y, StdCfg("cC"))
                                IN  Code(w.ok /\ run.ok, FALSE, w.ok /\ ProdFailsR(F, X, y, run, w.h, w.l) # {})
    [] OTHER -> LET run == ProdRun(F, K, X, y, StdCfg(CfgOf(r)))
                    ind == ProdDomR(F, X, y, run)
                IN  Code(ind, ind /\ ProdErrRepresentable(F, X, y), ProdFailsR(F, X, y, run, run.h, run.l) # {})

SplitCode(r) ==
  CASE r = "wit_split_c" -> IF SplitS(F) < 3 THEN 0
                            ELSE LET w == SplitRun(F, K, X, KCfg("c", SplitS(F) - 2))
                                     cfg == StdCfg("cC")
                                 IN  Code(w.ok, FALSE, w.ok /\ SplitFailsR(F, K, X, cfg, SplitRun(F, K, X, cfg), w.h, w.l) # {})
    [] r = "wit_noclamp" -> IF ~DLt(K.xmaxD, DAbs(Val(F, X))) THEN 0
                            ELSE LET gd == SplitRunN(F, K, XMul(F, X, K.invN), K.C, FALSE).h
                                     h == XMul(F, gd, K.N)
                                     cfg == StdCfg("nCS")
                                 IN  Code(TRUE, FALSE, SplitFailsR(F, K, X, cfg, SplitRun(F, K, X, cfg), h, XSub(F, X, h)) # {})
    [] OTHER -> LET cfg == StdCfg(CfgOf(r))
                    run == SplitRun(F, K, X, cfg)
                IN  Code(SplitDomR(F, K, X, cfg, run), cfg.scale, SplitFailsR(F, K, X, cfg, run, run.h, run.l) # {})

\* every split point, both algorithms: <<k, alg>> as the second operand
SplitKCode(k, alg) ==
  LET cfg == KCfg(alg, k)
      run == SplitRun(F, K, X, cfg)
  IN  Code(SplitDomR(F, K, X, cfg, run), FALSE,
           SplitFailsR(F, K, X, cfg, run, run.h, run.l) # {} \/ SplitHalfBits(F, K, cfg) # Max(k, F.p - k))

Sum3Code(y, z, fast) ==
  LET run == Sum3Run(F, X, y, z, fast)
  IN  Code(Sum3DomR(F, X, y, z, fast, run), FALSE, Sum3FailsR(F, X, y, z, fast, run, run.s, run.t) # {})

Codes(r) ==
  IF r \in PairRels THEN {<<y, PairCode(r, NFromInt(y))>> : y \in FinPats(F)}
  ELSE IF r = "splitk" THEN {<<<<k, a>>, SplitKCode(k, a)>> : k \in 2..(F.p - 2), a \in {"n", "c"}}
  ELSE IF r = "sum3" THEN {<<<<y, z, fa>>, Sum3Code(NFromInt(y), NFromInt(z), fa)>> :
                              y \in FinPats(F), z \in {n \in FinPats(F) : n % 5 = 0}, fa \in BOOLEAN}
  ELSE {<<0, SplitCode(r)>>}

Count(r) ==
  LET cs == Codes(r)
      bad == {c \in cs : c[2] \div 4 = 1}
  IN  <<Cardinality({c \in cs : c[2] % 2 = 1}), Cardinality({c \in cs : (c[2] \div 2) % 2 = 1}), Cardinality(bad),
        IF bad = {} THEN <<>> ELSE <<(CHOOSE c \in bad : TRUE)[1]>>>>

(*************************** behaviour *************************************)
Init == /\ ph = 0 /\ rel = "" /\ cnt = <<>>
        /\ fn \in PairFmts \cup SplitFmts \cup TripleFmts
        /\ x \in FinPats(FmtRec(fn))

NonNeg == x < Pow2(F.w - 1)
PairRelsOf(n) == IF n \in HalfFmts THEN PairRels \ {"wit_fast", "wit_drop"} ELSE PairRels
Next == /\ ph = 0 /\ ph' = 1 /\ UNCHANGED <<fn, x>>
        /\ rel' \in (IF fn \in PairFmts /\ (fn \in HalfFmts => NonNeg) THEN PairRelsOf(fn) ELSE {})
                    \cup (IF fn \in SplitFmts THEN SplitRels ELSE {})
                    \cup (IF fn \in TripleFmts /\ (fn \in HalfFmts => NonNeg) THEN {"sum3"} ELSE {})
        /\ cnt' = Count(rel')
Spec == Init /\ [][Next]_vars

Emit == ph = 1 => PrintT(<<"CNT", fn, rel, x, cnt>>)
Holds == (ph = 1 /\ rel \in MustHold) => cnt[3] = 0
\* with scaling and the standard constant the splitter's domain is every finite operand
WholeRange == (ph = 1 /\ rel = "split:nCS") => cnt[1] = 1

\* the constants are what their names say
ASSUME \A n \in {"T4", "T5", "T6", "T7"} :
   LET f == FmtRec(n)
   IN  /\ f.emax = Pow2(f.w - f.p - 1) - 1 /\ f.emax >= SplitS(f) + 1
       /\ DEq(Val(f, ConstN(f)), DPow2(SplitS(f)))
       /\ DEq(Val(f, ConstC(f)), DAdd(DPow2(SplitS(f)), DOne))
       /\ DEq(Val(f, ConstInvN(f)), DPow2(0 - SplitS(f)))
       /\ DEq(Val(f, ConstXMax(f)), XMaxD(f)) /\ SigBits(f, ConstXMax(f)) = f.p \div 2
       /\ DEq(Val(f, LargestMag(f)), <<<<0, NSub(NPow2(f.p), NOne)>>, QMax(f)>>)
=============================================================================
