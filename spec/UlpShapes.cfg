\* all 46 x 46 ordered pairs of operand shapes, concretised for float16/32/64
SPECIFICATION ShapeSpec
INVARIANT ShapePrint
INVARIANT ShapeFinite
CHECK_DEADLOCK FALSE
