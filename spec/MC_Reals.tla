------------------------------ MODULE MC_Reals ------------------------------
(***************************************************************************)
(* U1 for the real-arithmetic layer (C02, later C01): TLC checks, on every *)
(* point of small dyadic grids, laws that SOUND enclosures must satisfy.   *)
(* Two enclosures of the same real number must intersect; an algebraic     *)
(* identity evaluated in interval arithmetic must contain its exact value. *)
(* A violated law is a bug in Reals.tla (machinery), found without any     *)
(* outside oracle.  (The complementary test against mpmath at 400 bits is  *)
(* the selftest of harness/props/c02.py.)                                  *)
(*                                                                         *)
(* Grid: x = j / 2^GridShift for j in -GridN..GridN; the binary laws pair  *)
(* it with b = k * KStep / 2^GridShift, k in -GridK..GridK; widths W in Ws *)
(* (and 2W for nestedness).                                                *)
(* Constants of MC_Reals.cfg: GridN = 24, GridShift = 3 (|x| <= 3, step    *)
(* 1/8), GridK = 6, KStep = 4, Ws = {24, 96};  MC_Reals_deep.cfg:          *)
(* GridN = 96, GridShift = 4 (|x| <= 6, step 1/16), GridK = 16, KStep = 4, *)
(* Ws = {24, 53, 96, 160}.                                                 *)
(*                                                                         *)
(* Laws (st = <<law, j, k, W>>; unary laws have k = 0 only):               *)
(*  round    DRoundDown/Up against brute force over native integers        *)
(*  divsqrt  DDivDown * b <= a <= DDivUp * b, DSqrtDown^2 <= a <= Up^2,    *)
(*           and both are tight to 2^(1-W) relative                        *)
(*  mulref   IMul = IMulRef, IDiv = IDivRef, ISqr within IMul(X,X), on     *)
(*           intervals with grid end points (all sign cases)               *)
(*  shape    every enclosure has lo <= hi and relative width <= 2^(10-W)   *)
(*  nested   enclosure at width 2W is inside the enclosure at width W      *)
(*  pyth     SinI^2 + CosI^2 contains 1 (point and interval arguments)     *)
(*  expadd   ExpM1(a+b) meets (1+ExpM1 a)(1+ExpM1 b) - 1                   *)
(*  hyper    (1+CoshM1)^2 - Sinh^2 contains 1; Sinh(2x) meets 2 Sinh Cosh; *)
(*           CoshM1(2x) meets 2 Sinh^2                                     *)
(*  sqrtsqr  ISqrt(ISqr(X)) contains |x|                                   *)
(*  logexp   Log1pI(ExpM1I(x)) contains x;  ExpM1I(Log1pI(y)) contains y   *)
(*           (y > -1);  LogP(x) meets Log1pP(x - 1);  Log(ab) meets        *)
(*           Log a + Log b                                                 *)
(*  atan     AtanP(x) + AtanP(1/x) contains pi/2 (x > 0);  Sin(A)/Cos(A)   *)
(*           contains x for A = AtanP(x);  Atan2P(y, x) meets AtanP(y/x)   *)
(*           for x > 0;  AtanP(1) * 4 contains pi's enclosure              *)
(*  consts   Exp(Ln2I) contains 2;  Sin(PiI) contains 0; Cos(PiI) contains *)
(*           -1;  Sin(HalfPiI) contains 1 (ties the series to the          *)
(*           constants proved by MC_ArgReduce)                             *)
(*  mono     point enclosures are ordered along the grid for the monotone  *)
(*           functions: lo(f(x)) <= hi(f(x')) for x < x' (increasing f)    *)
(* MC_Reals_neg.cfg is the negative control (Sabotage = 1): every point    *)
(* enclosure is cut to its lowest eighth; TLC must report LawsOK violated. *)
(* -coverage is NOT used with this module: TLC's coverage instrumentation  *)
(* slows the deeply recursive BigInt evaluation by more than 100x (98      *)
(* states did not finish in 100 s); instead the driver checks that the     *)
(* number of distinct states equals the number of (law, point, W) triples. *)
(***************************************************************************)
EXTENDS Reals
CONSTANTS GridN, GridShift, GridK, KStep, Ws, Only, Sabotage
VARIABLE st

G(j) == DMk(ZFromInt(j), -GridShift)
AllUnary == {"round", "shape", "nested", "pyth", "hyper", "logexp", "atan", "consts", "mono"}
AllBinary == {"divsqrt", "mulref", "expadd", "sqrtsqr", "logmul", "atan2"}
\* Only = {} runs every law; a non-empty set selects laws (used by the with/without-overrides diff)
Unary == IF Only = {} THEN AllUnary ELSE AllUnary \cap Only
Binary == IF Only = {} THEN AllBinary ELSE AllBinary \cap Only
Laws == Unary \cup Binary

LawStates == {<<law, j, 0, W>> : law \in Unary, j \in -GridN..GridN, W \in Ws}
             \cup {<<law, j, k * KStep, W>> : law \in Binary, j \in -GridN..GridN, k \in -GridK..GridK, W \in Ws}
\* TLC checks the invariant on initial states in ONE thread; a two-level fan-out (root -> NGroups group
\* states -> the law instances of the group) lets every worker evaluate laws
NGroups == 64
GroupOf(s) == (s[2] + 3 * s[3] + 7 * s[4] + 1000) % NGroups
Init == st = <<"root">>
Next == \/ st = <<"root">> /\ st' \in {<<"group", g>> : g \in 0..(NGroups - 1)}
        \/ st[1] = "group" /\ st' \in {s \in LawStates : GroupOf(s) = st[2]}
Spec == Init /\ [][Next]_st

(*************************** helpers ***************************************)
Rel(X, W) == IF DIsZero(X[1]) /\ DIsZero(X[2]) THEN TRUE ELSE IRelWidthLe(X, 10 - W)
Shape(X, W) == IWellFormed(X) /\ Rel(X, W)
Inside(X, Y) == ISubset(X, Y)

\* the point functions under test, by name (domain predicate, enclosure)
Fns == {"expm1", "exp", "sinh", "coshm1", "sin", "cos", "atan", "log", "log1p"}
InDom(fn, x) == CASE fn = "log" -> DSign(x) > 0
                  [] fn = "log1p" -> DLt(DNeg(DOne), x)
                  [] OTHER -> TRUE
F0(fn, x, W) == CASE fn = "expm1" -> ExpM1P(x, W) [] fn = "exp" -> ExpP(x, W)
                 [] fn = "sinh" -> SinhP(x, W) [] fn = "coshm1" -> CoshM1P(x, W)
                 [] fn = "sin" -> SinP(x, W) [] fn = "cos" -> CosP(x, W)
                 [] fn = "atan" -> AtanP(x, W) [] fn = "log" -> LogP(x, W)
                 [] fn = "log1p" -> Log1pP(x, W)
\* NEGATIVE CONTROL (MC_Reals_neg.cfg, Sabotage = 1; must be VIOLATED): the enclosure is replaced by
\* its lowest eighth, which (almost surely) excludes the true value - laws shape/nested/mono must notice
Shrink(X) == IF Sabotage = 1 THEN <<X[1], DAdd(X[1], DShl(IWidth(X), -3))>> ELSE X
F(fn, x, W) == Shrink(F0(fn, x, W))
\* cos has zeros off the grid only (pi/2 is not dyadic), sin/atan/sinh/expm1/log1p vanish only at 0,
\* log only at 1: relative width is meaningful everywhere except at those exact zeros
Increasing == {"expm1", "exp", "sinh", "atan", "log", "log1p"}

(*************************** brute-force rounding **************************)
\* native integers n near -GridN*8..GridN*8 and widths 1..5: DRoundDown(n, w) is the largest
\* +-m * 2^e <= n with m < 2^w (no representable number in (result, n]), DRoundUp the smallest such >= n
Repr(w) == {m * Pow2(e) : m \in 0..(Pow2(w) - 1), e \in 0..10}
DInt32(d) == LET c == DCanon(d) IN ZToInt(ZShl(c[1], c[2]))          \* small integral dyadic -> native
RoundOK(n) ==
  \A w \in 1..5 :
    LET R == Repr(w)
        dn == DInt32(DRoundDown(DFromInt(n), w))
        up == DInt32(DRoundUp(DFromInt(n), w))
        Abs(i) == IF i < 0 THEN -i ELSE i
    IN  /\ Abs(dn) \in R /\ dn <= n /\ \A s \in R : ~(dn < s /\ s <= n) /\ ~(dn < -s /\ -s <= n)
        /\ Abs(up) \in R /\ up >= n /\ \A s \in R : ~(n <= s /\ s < up) /\ ~(n <= -s /\ -s < up)
        /\ NBitLen(DRoundDown(DFromInt(n), w)[1][2]) <= w + 1

(*************************** the laws **************************************)
LawRound(j) == RoundOK(j * 8) /\ RoundOK(j * 8 + 3) /\ RoundOK(j * 7 + 1)

LawDivSqrt(j, k, W) ==
  LET a == G(j)  b == G(k)
  IN  /\ (k # 0 =>
            LET lo == DDivDown(a, b, W)  hi == DDivUp(a, b, W)
                \* a/b between lo and hi  <=>  (sign-aware) lo*b and hi*b bracket a
                pl == DMul(lo, b)  ph == DMul(hi, b)
            IN  /\ DLe(lo, hi)
                /\ (IF DSign(b) > 0 THEN DLe(pl, a) /\ DLe(a, ph) ELSE DLe(ph, a) /\ DLe(a, pl))
                /\ DLe(DSub(hi, lo), DShl(DAbs(lo), 1 - W))
                /\ (DEq(lo, hi) <=> DEq(pl, a)))
      /\ (j >= 0 =>
            LET lo == DSqrtDown(a, W)  hi == DSqrtUp(a, W)
            IN  /\ DLe(lo, hi) /\ DSign(lo) >= 0
                /\ DLe(DMul(lo, lo), a) /\ DLe(a, DMul(hi, hi))
                /\ DLe(DSub(hi, lo), DShl(lo, 1 - W)))

\* intervals [min(j,k), max(j,k)]/2^s and a second one shifted: all nine sign cases occur
LawMulRef(j, k, W) ==
  LET X == <<G(Min(j, k)), G(Max(j, k))>>
      Y == <<G(Min(k - 5, 2 * j + 1)), G(Max(k - 5, 2 * j + 1))>>
      Z == <<G(Min(j, k) * 3 + 1), G(Min(j, k) * 3 + 1 + Max(j, k) - Min(j, k))>>
  IN  /\ IMul(X, Y, W) = IMulRef(X, Y, W)
      /\ IMul(Y, X, W) = IMulRef(X, Y, W)
      /\ IMul(X, Z, 5) = IMulRef(X, Z, 5)
      /\ ISubset(ISqr(X, W), IMul(X, X, W))
      /\ IContains(ISqr(X, W), DMul(X[1], X[1])) /\ IContains(ISqr(X, W), DMul(X[2], X[2]))
      /\ (~IHasZero(Y) => IDiv(X, Y, W) = IDivRef(X, Y, W))
      /\ (~IHasZero(Z) => IDiv(X, Z, 7) = IDivRef(X, Z, 7))
      /\ (~IHasZero(Y) => IContains(IMul(IDiv(X, Y, W), Y, W), X[1]))
      /\ ISub(X, Y, W) = IAdd(X, INeg(Y), W)
      /\ IContains(IAdd(X, Y, 6), DAdd(X[1], Y[2]))

LawShape(j, W) ==
  \A fn \in Fns : InDom(fn, G(j)) => Shape(F(fn, G(j), W), W)

LawNested(j, W) ==
  \A fn \in Fns : InDom(fn, G(j)) => Inside(F(fn, G(j), 2 * W), F(fn, G(j), W))

LawPyth(j, W) ==
  LET x == G(j)
      s == SinP(x, W)  c == CosP(x, W)
      X == <<x, DAdd(x, DPow2(-10))>>
      si == SinI(X, W)  ci == CosI(X, W)
  IN  /\ IContains(IAdd(ISqr(s, W), ISqr(c, W), W), DOne)
      /\ IContains(IAdd(ISqr(si, W), ISqr(ci, W), W), DOne)
      /\ ISubset(s, si) /\ ISubset(c, ci)
      \* double angle: sin 2x meets 2 sin x cos x
      /\ IMeets(SinP(DShl(x, 1), W), IScale(IMul(s, c, W), 1))

LawExpAdd(j, k, W) ==
  LET a == G(j)  b == G(k)
      ea == ExpM1P(a, W)  eb == ExpM1P(b, W)
      prod == ISub(IMul(IAdd(IOne, ea, W), IAdd(IOne, eb, W), W), IOne, W)
  IN  /\ IMeets(ExpM1P(DAdd(a, b), W), prod)
      /\ IMeets(ExpP(DAdd(a, b), W), IMul(ExpP(a, W), ExpP(b, W), W))

LawHyper(j, W) ==
  LET x == G(j)
      s == SinhP(x, W)  cm == CoshM1P(x, W)  c == IAdd(IOne, cm, W)
  IN  /\ IContains(ISub(ISqr(c, W), ISqr(s, W), W), DOne)
      /\ IMeets(SinhP(DShl(x, 1), W), IScale(IMul(s, c, W), 1))
      /\ IMeets(CoshM1P(DShl(x, 1), W), IScale(ISqr(s, W), 1))
      /\ ISubset(s, SinhI(<<x, DAdd(x, DPow2(-12))>>, W))
      /\ ISubset(cm, CoshM1I(<<DSub(x, DPow2(-12)), DAdd(x, DPow2(-12))>>, W))
      \* sinh x - x >= 0 for x >= 0 and the definition through exp: e^x - e^-x = 2 sinh x
      /\ IMeets(ISub(ExpP(x, W), ExpP(DNeg(x), W), W), IScale(s, 1))

LawSqrtSqr(j, k, W) ==
  LET X == <<G(Min(j, k)), G(Max(j, k))>>
      R == ISqrt(ISqr(X, W), W)
  IN  /\ IContains(R, DAbs(X[1])) /\ IContains(R, DAbs(X[2]))
      /\ (IHasZero(X) => IContains(R, DZero))
      /\ ISubset(IAbs(X), R)

LawLogExp(j, W) ==
  LET x == G(j)
      y == DAdd(x, DPow2(-GridShift - 1))          \* off-grid companion, > -1 when x > -1
  IN  /\ IContains(Log1pI(ExpM1P(x, W), W), x)
      /\ (DLt(DNeg(DOne), x) => IContains(ExpM1I(Log1pP(x, W), W), x))
      /\ (DSign(x) > 0 => IMeets(LogP(x, W), Log1pP(DSub(x, DOne), W)))
      /\ (DSign(x) > 0 => IContains(ExpI(LogP(x, W), W), x))
      /\ (DLt(DNeg(DOne), y) => IContains(ExpM1I(Log1pP(y, W), W), y))
      /\ (DSign(y) > 0 => IContains(ExpI(LogP(y, W), W), y))
LawLogMul(j, k, W) ==
  LET a == G(j)  b == G(k)
  IN  (j > 0 /\ k > 0) => IMeets(LogP(DMul(a, b), W), IAdd(LogP(a, W), LogP(b, W), W))

LawAtan(j, W) ==
  LET x == G(j)
      A == AtanP(x, W)
      hp == IScale(PiT(W + 8), -1)
  IN  /\ (j > 0 => IMeets(IAdd(A, AtanI(IInv(IPt(x), W), W), W), hp))
      /\ IContains(IDiv(SinI(A, W), CosI(A, W), W), x)
      /\ (j = Pow2(GridShift) => IMeets(IScale(A, 2), PiT(W + 8)))
      /\ ISubset(A, <<DNeg(hp[2]), hp[2]>>)
LawAtan2(j, k, W) ==
  LET y == G(j)  x == G(k)
  IN  (j # 0 \/ k # 0) =>
        LET T == Atan2P(y, x, W)
            pi == PiT(W + 8)
        IN  /\ IWellFormed(T)
            /\ (k > 0 => IMeets(T, AtanI(IDiv(IPt(y), IPt(x), W), W)))
            /\ (k < 0 /\ j >= 0 => IMeets(T, IAdd(pi, AtanI(IDiv(IPt(y), IPt(x), W), W), W)))
            /\ (k < 0 /\ j < 0 => IMeets(T, ISub(AtanI(IDiv(IPt(y), IPt(x), W), W), pi, W)))
            /\ (k = 0 => IMeets(T, IF j > 0 THEN IScale(pi, -1) ELSE INeg(IScale(pi, -1))))
            \* the defining relation: x sin T = y cos T, and (cos T, sin T) points like (x, y)
            /\ IContains(ISub(IMul(IPt(x), SinI(T, W), W), IMul(IPt(y), CosI(T, W), W), W), DZero)
            /\ (k > 0 => DSign(CosI(T, W)[2]) > 0) /\ (j > 0 => DSign(SinI(T, W)[2]) > 0)
            /\ (k < 0 => DSign(CosI(T, W)[1]) < 0) /\ (j < 0 => DSign(SinI(T, W)[1]) < 0)

LawConsts(j, W) ==
  j = 0 =>
    /\ IContains(ExpI(Ln2I, W), DTwo)
    /\ IContains(ExpM1I(Ln2I, W), DOne)
    /\ IContains(SinI(PiT(W + 40), W), DZero)
    /\ IContains(CosI(PiT(W + 40), W), DNeg(DOne))
    /\ IContains(SinI(IScale(PiT(W + 40), -1), W), DOne)
    /\ IContains(LogP(DTwo, W), Ln2I[1]) /\ IContains(LogP(DTwo, W), Ln2I[2])
    /\ IContains(AtanP(DOne, W), IScale(PiI, -2)[1])
    /\ DSign(SinP(DFromInt(355), W)[2]) < 0          \* 355 = 113 pi + 3.0e-5: sin(355) ~ -3.0e-5, certainly < 0
    /\ DSign(SinP(DFromInt(710), W)[1]) > 0          \* 710 = 226 pi + 6.0e-5

LawMono(j, W) ==
  j < GridN =>
    \A fn \in Increasing :
      (InDom(fn, G(j)) /\ InDom(fn, G(j + 1))) => DLe(F(fn, G(j), W)[1], F(fn, G(j + 1), W)[2])

LawsOK ==
  st[1] \in {"root", "group"} \/
  LET law == st[1]  j == st[2]  k == st[3]  W == st[4]
  IN  CASE law = "round" -> LawRound(j)
        [] law = "divsqrt" -> LawDivSqrt(j, k, W)
        [] law = "mulref" -> LawMulRef(j, k, W)
        [] law = "shape" -> LawShape(j, W)
        [] law = "nested" -> LawNested(j, W)
        [] law = "pyth" -> LawPyth(j, W)
        [] law = "expadd" -> LawExpAdd(j, k, W)
        [] law = "hyper" -> LawHyper(j, W)
        [] law = "sqrtsqr" -> LawSqrtSqr(j, k, W)
        [] law = "logexp" -> LawLogExp(j, W)
        [] law = "logmul" -> LawLogMul(j, k, W)
        [] law = "atan" -> LawAtan(j, W)
        [] law = "atan2" -> LawAtan2(j, k, W)
        [] law = "consts" -> LawConsts(j, W)
        [] law = "mono" -> LawMono(j, W)
=============================================================================
