------------------------------ MODULE MC_Poly ------------------------------
(***************************************************************************)
(* U1 for C16: the ring laws that tie the definitions of Poly.tla to each  *)
(* other, checked on ALL pairs of polynomials with at most MaxLen          *)
(* coefficients drawn from Coefs = {-1, 0, 1, 1/2} at all points of        *)
(* Pts = {-2, 0, 1/2, 3} (shift points the same set, Laurent exponents     *)
(* -4..4).  MC_Poly.cfg: MaxLen = 3 (degree <= 2, 85 polynomials, 85 + 85^2 *)
(* = 7310 states); MC_Poly_deep.cfg: MaxLen = 4 with the coefficient set   *)
(* cut to {-1, 0, 1/2} (121 polynomials, 121 + 121^2 = 14762 states).      *)
(* This guards the oracle; it says nothing about the code.                 *)
(***************************************************************************)
EXTENDS Poly, TLC
CONSTANTS MaxLen, UseOne
VARIABLES p, q, ph

Half == <<<<0, <<1>>>>, <<2>>>>
Coefs == {QInt(-1), QZero, Half} \cup (IF UseOne THEN {QOne} ELSE {})
Pts == {QInt(-2), QZero, Half, QInt(3)}
Polys == UNION {[1..n -> Coefs] : n \in 0..MaxLen}

\* phase 1: every polynomial p alone (laws in one polynomial); phase 2: every pair (p, q).
\* (Two levels so that TLC's workers share the pairs; initial states are processed by one thread.)
Init == p \in Polys /\ q = <<>> /\ ph = 1
Next == ph = 1 /\ q' \in Polys /\ p' = p /\ ph' = 2
Spec == Init /\ [][Next]_<<p, q, ph>>
One(law) == ph = 1 => law
Two(law) == ph = 2 => law

EvalAgree_ == \A x \in Pts : /\ QEq(PEval(p, x), PEvalPow(p, x))
                             /\ QEq(PEvalFrom(p, x, 1), PEvalPow(p, x))
                             /\ QEq(PEvalB(p, x, 1), PEvalPow(p, x))
                             /\ QEq(PEvalB(p, x, 2), PEvalPow(p, x))
AddLaw_ == \A x \in Pts : QEq(PEval(PAdd(p, q), x), QAdd(PEval(p, x), PEval(q, x)))
MulLaw_ == /\ \A x \in Pts : QEq(PEval(PMul(p, q), x), QMul(PEval(p, x), PEval(q, x)))
          /\ PEq(PMul(p, q), PMul(q, p))
          /\ (~PIsZero(p) /\ ~PIsZero(q)) => Deg(PMul(p, q)) = Deg(p) + Deg(q)
ScaleLaw_ == \A c \in Coefs : PEq(PScale(c, p), PMul(<<c>>, p))
DerivLaw_ == /\ PEq(PDeriv(PAdd(p, q)), PAdd(PDeriv(p), PDeriv(q)))
            /\ PEq(PDeriv(PMul(p, q)), PAdd(PMul(PDeriv(p), q), PMul(p, PDeriv(q))))   \* product rule
            /\ PEq(PDerivN(p, 2), PDeriv(PDeriv(p)))
            /\ PEq(PDerivN(p, Len(p)), <<>>)
DerivBase_ == /\ PEq(PDeriv(<<Half>>), <<>>)
             /\ PEq(PDeriv(<<QZero, QOne>>), <<QOne>>)
             /\ PEq(PDeriv(<<>>), <<>>)
TaylorLaw_ == \A a \in Pts :
               LET T == PTaylorAt(p, a)
               IN  /\ Len(T) = Len(p)
                   /\ PEq(T, PShift(p, a))
                   /\ \A x \in Pts : /\ QEq(PEval(T, QSub(x, a)), PEval(p, x))
                                     /\ QEq(PEval(PShift(p, a), x), PEval(p, QAdd(x, a)))
RatioLaw_ == Len(p) >= 1 =>
              /\ RatioDomain(p) => PSame(PFromRatio(PToRatio(p)), p)
              /\ RatioDomain(PFromRatio(p)) => PSame(PToRatio(PFromRatio(p)), p)
              /\ \A x \in Pts : QEq(PEval(PFromRatio(p), x), REvalNested(p, x))
DivLaw_ == ~PIsZero(q) =>
            LET qr == PDivMod(p, q)
            IN  /\ DivModOK(p, q, qr[1], qr[2])
                /\ ~DivModOK(p, q, qr[1], PAdd(qr[2], <<QOne>>))            \* the relation is not vacuous
                /\ ~DivModOK(p, q, PAdd(qr[1], <<QOne>>), qr[2])
                /\ DivModOK(PMul(p, q), q, p, <<>>)                         \* exact multiples
RevLaw_ == /\ PRev(PRev(p)) = p
          /\ Len(p) >= 1 => \A x \in Pts \ {QZero} :
                 QEq(PEval(PRev(p), x), QMul(QPow(x, Len(p) - 1), PEval(p, QInv(x))))
LaurentLaw_ == \A x \in Pts : \A m \in -4..4 :
                 (m >= 0 \/ ~QIsZero(x)) => QEq(LEval(p, m, x), LEvalPow(p, m, x))
TrimLaw_ == /\ PEq(PTrim(p), p)
           /\ Deg(p) < Len(p)
           /\ (PIsZero(p) <=> Deg(p) = -1)
           /\ (PEq(p, q) <=> \A i \in 1..MaxLen : QEq(PCoef(p, i), PCoef(q, i)))
PowLaw_ == \A x \in Pts : /\ QEq(QPow(x, 3), QMul(x, QMul(x, x)))
                         /\ ~QIsZero(x) => QEq(QMul(QPowZ(x, -3), QPow(x, 3)), QOne)
                         /\ QEq(QFact(4), QInt(24))
EvalAgree == One(EvalAgree_)
ScaleLaw == One(ScaleLaw_)
DerivBase == One(DerivBase_)
TaylorLaw == One(TaylorLaw_)
RatioLaw == One(RatioLaw_)
RevLaw == One(RevLaw_)
LaurentLaw == One(LaurentLaw_)
PowLaw == One(PowLaw_)
AddLaw == Two(AddLaw_)
MulLaw == Two(MulLaw_)
DerivLaw == Two(DerivLaw_)
DivLaw == Two(DivLaw_)
TrimLaw == Two(TrimLaw_)
States == 0  \* expected distinct states: |Polys| + |Polys|^2 (checked by the driver)
=============================================================================
