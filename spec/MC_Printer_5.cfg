\* all connected DAGs with <= 5 nodes x all force_ref subsets, unique reference names
SPECIFICATION Spec
CONSTANTS
  MaxNodes = 5
  Alias = FALSE
INVARIANT Sound
CHECK_DEADLOCK FALSE
