\* U2 (quick): offsets 0, +-1..4, +-8, +-16, +-33, +-64 around every anchor; hypot pair offsets -2..2
SPECIFICATION Spec
CONSTANTS
  Ks <- KsQuick
  KsHypot <- KsHypotQuick
INVARIANT Emit
INVARIANT AnchorsSane
CHECK_DEADLOCK FALSE
