----------------------------- MODULE FAPrinterHLO -----------------------------
(***************************************************************************)
(* C06: StableHLO (TableGen pattern) and XLA client (C++ builder) output   *)
(* is a faithful rendering of the graph.  The machine is FAPrinter.tla's   *)
(* (single assignment, definition before use, denotation of terms over the *)
(* REAL node table); nothing is executed.  This module brings              *)
(*   - the spec's own tables ImplH of what realises each kind in the two   *)
(*     targets: the operations of the public StableHLO / CHLO dialects in  *)
(*     their TableGen spelling (stablehlo.add = StableHLO_AddOp, chlo.acos *)
(*     = CHLO_AcosOp ...) and the functions of the xla:: client API        *)
(*     (xla_builder.h, lib/math.h: xla::Add, xla::Floor ..., also the      *)
(*     operators ~ & | ^ << >> the API overloads for XlaOp).  Written from *)
(*     those APIs, not from the package;                                   *)
(*   - the target-specific clauses (PostRow): a constant is ATTACHED to an *)
(*     operand - `ScalarLike(operand, value)`,                             *)
(*     `(StableHLO_ConstantLike<"value"> operand)` - that must be a        *)
(*     defined term whose element type is the constant's type.             *)
(*                                                                         *)
(* Text -> statements (harness/props/c06.py, independent parsers):         *)
(*   StableHLO  `(Op:$ref args)` is the binding of ref: statement          *)
(*       `assign ref = (Op args)` at its place in print order followed by  *)
(*       a use of ref; `$ref` is a use.  So "every `:$ref` binding         *)
(*       precedes every `$ref` use in print order and no name is bound     *)
(*       twice" are the machine's def_before_use / single_assignment.      *)
(*       `(StableHLO_CompareOp a, b, StableHLO_ComparisonDirectionValue    *)
(*       <"D">, ...)` is the operator "sx:StableHLO_CompareOp<D>" applied  *)
(*       to a, b: the direction is part of the operator.                   *)
(*   XLA client  the C++ subset of C05 (`XlaOp v = e;`, `T c = e;`,        *)
(*       `return e;`); expressions of the alternative constant context     *)
(*       are C++ expressions over the template type parameter.             *)
(*   Rows of attached constants are in normal form: children = the value   *)
(*   expression (none for a named variant), v = <<row of the operand>>.    *)
(*                                                                         *)
(* Node table: as in FAPrinter, plus kind "constant_alt" (a constant whose *)
(* value is an expression of the alternative context: one operand, the     *)
(* root of that expression) and types "alt:<T>" for the nodes of the       *)
(* alternative context (realised by FAPrinter!Impl("cpp", ...)).           *)
(*                                                                         *)
(* Clauses reported (names of FAPrinter plus):                             *)
(*   constant_like        a constant is attached to a term that denotes no *)
(*                        node of the constant's element type (or to       *)
(*                        nothing)                                         *)
(*   comparison_direction a CompareOp whose direction is the kind of no    *)
(*                        node of the graph                                *)
(*   def_before_use also covers the operand a constant is attached to.     *)
(* Leniencies: the attached operand may be ANY defined term of the right   *)
(* element type (not necessarily the graph's `like` node); constants of    *)
(* equal value and element type are one sub-expression; a number is        *)
(* compared after conversion to the node's element format (for a template  *)
(* type parameter: the number itself); named constants are compared by     *)
(* name; the comparison type attribute must be absent or the dialect's     *)
(* default; kinds in WildH are matched against the package's own template; *)
(* the C++ typing clauses of C05 are not applied to the alternative        *)
(* context's expressions.                                                  *)
(***************************************************************************)
EXTENDS FAPrinter

(*************************** the Implements tables *************************)
Holes(k) == CASE k = 1 -> <<H(1)>> [] k = 2 -> <<H(1), H(2)>> [] OTHER -> <<H(1), H(2), H(3)>>
SX(name, k) == P("sx:" \o name, Holes(k))
XC(name, k) == {P("call:" \o name, Holes(k)), P("call:xla::" \o name, Holes(k))}
Upper(k) == CASE k = "lt" -> "LT" [] k = "le" -> "LE" [] k = "gt" -> "GT" [] k = "ge" -> "GE" [] k = "eq" -> "EQ" [] k = "ne" -> "NE" [] OTHER -> ""
Camel(k) == CASE k = "lt" -> "Lt" [] k = "le" -> "Le" [] k = "gt" -> "Gt" [] k = "ge" -> "Ge" [] k = "eq" -> "Eq" [] k = "ne" -> "Ne" [] OTHER -> ""

\* operator names of the StableHLO dialect (StablehloOps.td) and of CHLO (ChloOps.td)
StableHLOName(k) ==
  CASE k = "absolute" -> "StableHLO_AbsOp" [] k = "negative" -> "StableHLO_NegOp"
    [] k = "add" -> "StableHLO_AddOp" [] k = "subtract" -> "StableHLO_SubtractOp" [] k = "multiply" -> "StableHLO_MulOp"
    [] k = "divide" -> "StableHLO_DivOp" [] k = "remainder" -> "StableHLO_RemOp" [] k = "pow" -> "StableHLO_PowOp"
    [] k \in {"logical_and", "bitwise_and"} -> "StableHLO_AndOp" [] k \in {"logical_or", "bitwise_or"} -> "StableHLO_OrOp"
    [] k \in {"logical_xor", "bitwise_xor"} -> "StableHLO_XorOp" [] k \in {"logical_not", "bitwise_invert"} -> "StableHLO_NotOp"
    [] k = "bitwise_left_shift" -> "StableHLO_ShiftLeftOp" [] k = "bitwise_right_shift" -> "StableHLO_ShiftRightArithmeticOp"
    [] k = "maximum" -> "StableHLO_MaxOp" [] k = "minimum" -> "StableHLO_MinOp"
    [] k = "atan2" -> "StableHLO_Atan2Op" [] k = "cos" -> "StableHLO_CosineOp" [] k = "sin" -> "StableHLO_SineOp"
    [] k = "tanh" -> "StableHLO_TanhOp" [] k = "exp" -> "StableHLO_ExpOp" [] k = "expm1" -> "StableHLO_Expm1Op"
    [] k = "log" -> "StableHLO_LogOp" [] k = "log1p" -> "StableHLO_Log1pOp" [] k = "ceil" -> "StableHLO_CeilOp"
    [] k = "floor" -> "StableHLO_FloorOp" [] k = "sign" -> "StableHLO_SignOp" [] k = "sqrt" -> "StableHLO_SqrtOp"
    [] k = "real" -> "StableHLO_RealOp" [] k = "imag" -> "StableHLO_ImagOp" [] k = "complex" -> "StableHLO_ComplexOp"
    [] k = "select" -> "StableHLO_SelectOp" [] k = "is_finite" -> "StableHLO_IsFiniteOp"
    [] k = "acos" -> "CHLO_AcosOp" [] k = "acosh" -> "CHLO_AcoshOp" [] k = "asin" -> "CHLO_AsinOp" [] k = "asinh" -> "CHLO_AsinhOp"
    [] k = "atan" -> "CHLO_AtanOp" [] k = "atanh" -> "CHLO_AtanhOp" [] k = "cosh" -> "CHLO_CoshOp" [] k = "sinh" -> "CHLO_SinhOp"
    [] k = "tan" -> "CHLO_TanOp" [] k = "conjugate" -> "CHLO_ConjOp" [] k = "nextafter" -> "CHLO_NextAfterOp"
    [] k = "square" -> "CHLO_SquareOp" [] k = "asin_acos_kernel" -> "CHLO_AsinAcosKernelOp"
    [] OTHER -> ""
\* further spellings of the same operation (tan moved from CHLO to StableHLO)
StableHLOAlso(k) == CASE k = "tan" -> {"StableHLO_TanOp"} [] OTHER -> {}

\* function names of the xla:: client API
XlaName(k) ==
  CASE k = "absolute" -> "Abs" [] k = "negative" -> "Neg" [] k = "add" -> "Add" [] k = "subtract" -> "Sub" [] k = "multiply" -> "Mul"
    [] k = "divide" -> "Div" [] k = "remainder" -> "Rem" [] k = "pow" -> "Pow"
    [] k \in {"logical_and", "bitwise_and"} -> "And" [] k \in {"logical_or", "bitwise_or"} -> "Or"
    [] k \in {"logical_xor", "bitwise_xor"} -> "Xor" [] k \in {"logical_not", "bitwise_invert"} -> "Not"
    [] k = "bitwise_left_shift" -> "ShiftLeft" [] k = "bitwise_right_shift" -> "ShiftRightArithmetic"
    [] k = "maximum" -> "Max" [] k = "minimum" -> "Min"
    [] k = "acos" -> "Acos" [] k = "acosh" -> "Acosh" [] k = "asin" -> "Asin" [] k = "asinh" -> "Asinh" [] k = "atan" -> "Atan"
    [] k = "atanh" -> "Atanh" [] k = "atan2" -> "Atan2" [] k = "cos" -> "Cos" [] k = "cosh" -> "Cosh" [] k = "sin" -> "Sin"
    [] k = "sinh" -> "Sinh" [] k = "tan" -> "Tan" [] k = "tanh" -> "Tanh" [] k = "exp" -> "Exp" [] k = "expm1" -> "Expm1"
    [] k = "log" -> "Log" [] k = "log1p" -> "Log1p" [] k = "ceil" -> "Ceil" [] k = "floor" -> "Floor" [] k = "sign" -> "Sign"
    [] k = "conjugate" -> "Conj" [] k = "real" -> "Real" [] k = "imag" -> "Imag" [] k = "complex" -> "Complex"
    [] k = "square" -> "Square" [] k = "sqrt" -> "Sqrt" [] k = "select" -> "Select"
    [] k = "is_finite" -> "IsFinite" [] k = "is_inf" -> "IsInf" [] k = "is_posinf" -> "IsPosInf" [] k = "is_neginf" -> "IsNegInf"
    [] k = "is_nan" -> "IsNan" [] k = "is_negzero" -> "IsNegZero" [] k = "nextafter" -> "NextAfter"
    [] OTHER -> ""

Unary1 == {"absolute", "negative", "logical_not", "bitwise_invert", "acos", "acosh", "asin", "asinh", "atan", "atanh", "cos", "cosh", "sin",
           "sinh", "tan", "tanh", "exp", "expm1", "log", "log1p", "ceil", "floor", "sign", "conjugate", "real", "imag", "square", "sqrt",
           "is_finite", "is_inf", "is_posinf", "is_neginf", "is_nan", "is_negzero", "asin_acos_kernel"}
Arity(k) == IF k \in Unary1 THEN 1 ELSE IF k = "select" THEN 3 ELSE 2
AllKindsH == Unary1 \cup {"positive", "add", "subtract", "multiply", "divide", "remainder", "pow", "logical_and", "logical_or", "logical_xor",
                          "bitwise_and", "bitwise_or", "bitwise_xor", "bitwise_left_shift", "bitwise_right_shift", "maximum", "minimum",
                          "atan2", "complex", "select", "nextafter"} \cup RelKinds
\* kinds the spec cannot specify independently: the IR's `round` does not say which rounding it is (xla::Round is
\* half-away-from-zero, xla::RoundNearestEven the other one); the client library has no function the spec could
\* name for log2 / log10.  Accepted as the package's template says.
WildH(target) == CASE target = "xla_client" -> {"round", "log2", "log10"} [] OTHER -> {}

ImplH(target, k) ==
  CASE target = "stablehlo" ->
         (IF k = "positive" THEN {H(1)}                       \* the dialects have no identity operation: +x is x
          ELSE IF k \in RelKinds THEN {SX("StableHLO_CompareOp<" \o Upper(k) \o ">", 2)}
          ELSE IF StableHLOName(k) = "" THEN None
          ELSE {SX(nm, Arity(k)) : nm \in {StableHLOName(k)} \cup StableHLOAlso(k)})
    [] target = "xla_client" ->
         (IF k = "positive" THEN {H(1)}
          ELSE IF k \in RelKinds THEN XC(Camel(k), 2)
          ELSE IF XlaName(k) = "" THEN None
          ELSE XC(XlaName(k), Arity(k))
               \cup (CASE k = "bitwise_and" -> {Bin("&", H(1), H(2))} [] k = "bitwise_or" -> {Bin("|", H(1), H(2))}
                       [] k = "bitwise_xor" -> {Bin("^", H(1), H(2))} [] k = "bitwise_invert" -> {Un("~", H(1))}
                       [] k = "bitwise_left_shift" -> {Bin("<<", H(1), H(2))} [] k = "bitwise_right_shift" -> {Bin(">>", H(1), H(2))}
                       [] k = "negative" -> {Un("-", H(1))}
                       [] k \in ArithKinds -> {Bin(ArithOp(k), H(1), H(2))} [] k = "remainder" -> {Bin("%", H(1), H(2))}
                       [] OTHER -> {}))
    [] OTHER -> None
SpecifiedKindsH(target) == {k \in AllKindsH : ImplH(target, k) # None}

\* named constants a target can render, and the rendering's value (by name)
NamedOf(target) == CASE target = "stablehlo" -> {"largest", "smallest", "posinf", "neginf", "pi"} [] OTHER -> {}

IsAltT(t) == HasPrefix(t, 4, "alt:")
\* impl table of a graph: constants of the alternative context are attached by ScalarLike; nodes of that
\* context are C++ (C05's table); wild-carded kinds use the pattern handed in (key "alt:<kind>" for the C++ ones)
RECURSIVE BuildImplH(_, _, _, _, _)
BuildImplH(target, nodes, wild, m, acc) ==
  IF m > Len(nodes) THEN acc
  ELSE LET n == nodes[m]
           \* (the package gives `complex` nodes of the alternative context no type: std::complex over the name of the parts' type)
           tn == IF n.k = "complex" /\ IsAltT(n.t) /\ Len(n.a) = 2 THEN {"std::complex<" \o u \o ">" : u \in TypeNames(target, nodes[n.a[1]].t)}
                 ELSE TypeNames(target, n.t)
           ps == IF n.k \in {"symbol", "constant"} THEN {}
                 ELSE IF n.k = "constant_alt" THEN (IF target = "xla_client" THEN {P(o, <<H(1)>>) : o \in ScalarLikeOps} ELSE {})
                 ELSE IF IsAltT(n.t) THEN
                   (IF n.k \in WildKinds("cpp") THEN (IF ("alt:" \o n.k) \in DOMAIN wild THEN {wild["alt:" \o n.k]} ELSE {})
                    ELSE Impl("cpp", n.k, tn, tn))
                 ELSE IF n.k \in WildH(target) THEN (IF n.k \in DOMAIN wild THEN {wild[n.k]} ELSE {})
                 ELSE ImplH(target, n.k)
       IN  BuildImplH(target, nodes, wild, m + 1, Append(acc, ps))

(*************************** attached constants ****************************)
IsAttach(o) == o \in ScalarLikeOps \/ HasPrefix(o, 9, "constlike")
\* Denotation of row i after the target's own rules:
\*  - a constant attached to an operand denotes only constants of the operand's element type; the operand must
\*    be a defined term (its own failures are confirmed here: it stands at an operand position)
\*  - a bare C++ constant expression is a value of the alternative context, never a value of the graph proper
PostRow(cx, st, i, x) ==
  LET rows == cx.prog.rows
      nodes == cx.nodes
      r == rows[i]
  IN  IF IsAttach(r.o) THEN
        (IF Len(r.v) # 1 THEN [d |-> x.d, f |-> x.f \cup {Fail("constant_like", i, "attached to no single operand")}]
         ELSE LET j == r.v[1]
                  lf == st.pf[j]
                  ld == st.ds[j]
                  tys == {nodes[q].t : q \in ld \ {0}}
                  d2 == {m \in x.d \ {0} : nodes[m].t \in tys}
              IN  IF x.d = Top(nodes) \/ ld = Top(nodes) THEN [d |-> x.d, f |-> x.f \cup lf]
                  ELSE IF d2 = {} THEN [d |-> Top(nodes), f |-> x.f \cup lf \cup {Fail("constant_like", i, r.o)}]
                  ELSE [d |-> d2, f |-> x.f \cup lf])
      ELSE IF x.d # Top(nodes) /\ r.o # "var" /\ RowVal(cx.target, rows, i).ok THEN
        [d |-> {m \in x.d : IsAltT(nodes[m].t)}, f |-> x.f]
      ELSE x

RECURSIVE DenAllH(_, _, _)
DenAllH(cx, st, i) ==
  IF i > Len(cx.prog.rows) THEN st
  ELSE LET x == PostRow(cx, st, i, DenRow(cx, st, i))
       IN  DenAllH(cx, [ds |-> Append(st.ds, x.d), pf |-> Append(st.pf, x.f)], i + 1)

KindOfDir(o) == CASE o = "sx:StableHLO_CompareOp<LT>" -> "lt" [] o = "sx:StableHLO_CompareOp<LE>" -> "le"
                  [] o = "sx:StableHLO_CompareOp<GT>" -> "gt" [] o = "sx:StableHLO_CompareOp<GE>" -> "ge"
                  [] o = "sx:StableHLO_CompareOp<EQ>" -> "eq" [] o = "sx:StableHLO_CompareOp<NE>" -> "ne" [] OTHER -> ""
\* an `operator` failure of a CompareOp whose direction is the kind of no node: the direction is wrong
\* ... and of an attached constant whose value expression is not one the spec can read: the value is wrong
Reclass(nodes, prog, x) ==
  IF x[1] = "operator" /\ x[2] > 0 /\ HasPrefix(prog.rows[x[2]].o, 23, "sx:StableHLO_CompareOp<")
     /\ ~\E m \in 1..Len(nodes) : nodes[m].k = KindOfDir(prog.rows[x[2]].o)
  THEN <<"comparison_direction", x[2], x[3]>>
  ELSE IF x[1] = "operator" /\ x[2] > 0 /\ IsAttach(prog.rows[x[2]].o) THEN <<"constant_value", x[2], x[3]>>
  ELSE x
\* a failing attached constant is reported once: the failures inside its value expression (text that is no C++
\* expression - row "opaque" -, operators the constant context does not have) are not reported by themselves
RECURSIVE FirstRow(_, _)
FirstRow(rows, j) == IF rows[j].a = <<>> THEN j ELSE FirstRow(rows, rows[j].a[1])
Reported(prog, fails, x) ==
  /\ ~(x[2] > 0 /\ prog.rows[x[2]].o = "opaque")
  /\ ~\E y \in fails : /\ y[2] > 0 /\ x[2] > 0 /\ x[2] < y[2] /\ IsAttach(prog.rows[y[2]].o) /\ prog.rows[y[2]].a # <<>>
                        /\ x[2] >= FirstRow(prog.rows, prog.rows[y[2]].a[1])

\* Verdict of the machine on a program of an HLO target
RunProgramH(target, nodes, root, wild, prog) ==
  LET impl == BuildImplH(target, nodes, wild, 1, <<>>)
      cx == Context(target, nodes, impl, prog)
      run == ProgramVerdict(cx, DenAllH(cx, [ds |-> <<>>, pf |-> <<>>], 1), root)
  IN  [ds |-> run.ds, fails |-> {Reclass(nodes, prog, x) : x \in {y \in run.fails : Reported(prog, run.fails, y)}}]
=============================================================================
