----------------------------- MODULE MC_Samples -----------------------------
(***************************************************************************)
(* C19, U1: the transcription Samples!Gen of the integer-view stepping is   *)
(* checked against the clauses of Samples.tla for EVERY argument tuple of a *)
(* toy format:                                                              *)
(*   Wide = FALSE: [p=3, emax=1, w=5]  (24 finite patterns, 3 subnormals)   *)
(*   Wide = TRUE : [p=3, emax=3, w=6]  (56 finite patterns)                 *)
(*   bounds: every (min, max), (min, -), (-, max) over finite patterns and  *)
(*   no bounds; flags: all 128 combinations without bounds, all (zero, sub, *)
(*   unique) with bounds; size in Sizes.                                    *)
(* There are no actions: every tuple is an initial state, the invariant is  *)
(* the postcondition.  With Mutant # "none" the generator is broken on      *)
(* purpose and the invariant says the targeted clause never fires - TLC     *)
(* must refute it (non-vacuity of that clause).                             *)
(* This validates the specification, it is no evidence about the code.      *)
(***************************************************************************)
EXTENDS Samples, TLC
CONSTANTS Sizes, Mutant, Wide
VARIABLE a

T == IF Wide THEN [p |-> 3, emax |-> 3, w |-> 6] ELSE [p |-> 3, emax |-> 1, w |-> 5]
Fin == FiniteBits(T)

DefaultArgs == [size : Sizes, hasmin : {FALSE}, min : {<<>>}, hasmax : {FALSE}, max : {<<>>},
                inf : BOOLEAN, zero : BOOLEAN, sub : BOOLEAN, nan : BOOLEAN, huge : BOOLEAN,
                nonneg : BOOLEAN, unique : BOOLEAN]
UserArgs(mins, maxs, hmin, hmax) ==
               [size : Sizes, hasmin : {hmin}, min : mins, hasmax : {hmax}, max : maxs,
                inf : {TRUE}, zero : BOOLEAN, sub : BOOLEAN, nan : {FALSE}, huge : {TRUE},
                nonneg : {FALSE}, unique : BOOLEAN]
Args == DefaultArgs \cup UserArgs(Fin, Fin, TRUE, TRUE) \cup UserArgs(Fin, {<<>>}, TRUE, FALSE)
        \cup UserArgs({<<>>}, Fin, FALSE, TRUE)

RemoveAt(s, i) == SubSeq(s, 1, i - 1) \o SubSeq(s, i + 1, Len(s))
Mutate(g, c) ==
  LET n == Len(g)
      m == (n + 1) \div 2
  IN  CASE Mutant = "none" -> g
        [] Mutant = "drop_first" -> IF n >= 2 THEN Tail(g) ELSE g
        [] Mutant = "drop_last" -> IF n >= 2 THEN SubSeq(g, 1, n - 1) ELSE g
        [] Mutant = "bump_mid" -> IF n >= 6 /\ IsFinite(T, g[m]) /\ Ord(T, g[m + 1]) # Ord(T, NextUp(T, g[m]))
                                  THEN [g EXCEPT ![m] = NextUp(T, g[m])] ELSE g
        [] Mutant = "add_subnormal" -> <<NOne>> \o g
        [] Mutant = "swap" -> IF n >= 2 THEN <<g[2], g[1]>> \o SubSeq(g, 3, n) ELSE g
        [] Mutant = "add_nan" -> g \o <<NAdd(InfMag(T), NOne)>>
        [] Mutant = "no_zero" -> SelectSeq(g, LAMBDA x : ~IsZero(T, x))
        [] Mutant = "add_inf" -> g \o <<PosInf(T)>>

AllFails(f, aa, c, xs) ==
  LET s == ChunkSum(f, aa, c, xs)
  IN  RsFails(f, aa, c, "", "toy", "toy", Len(xs), <<s>>) \cup ChunkFails(f, aa, c, s)

Target == CASE Mutant = "drop_first" -> "has_lo" [] Mutant = "drop_last" -> "has_hi"
            [] Mutant = "bump_mid" -> "uniform" [] Mutant = "add_subnormal" -> "subnormal"
            [] Mutant = "swap" -> "order" [] Mutant = "add_nan" -> "nan"
            [] Mutant = "no_zero" -> "has_zero" [] Mutant = "add_inf" -> "bounds"
            [] OTHER -> "none"

Post ==
  LET c == Ctx(T, a)
  IN  Domain(T, a, c) =>
        LET fails == AllFails(T, a, c, Mutate(GenBits(T, a, c), c))
        IN  IF Mutant = "none" THEN fails = {} ELSE Target \notin fails

Init == a \in Args
Next == UNCHANGED a
Spec == Init /\ [][Next]_a

\* how many argument tuples of each kind were covered (printed once, at the end)
Count(P(_)) == Cardinality({x \in Args : P(x)})
Stats ==
  LET InDom(x) == Domain(T, x, Ctx(T, x))
      Tag(x, t) == InDom(x) /\ PathTag(T, x, Ctx(T, x)) = t
      D(x) == Tag(x, "path=default")
      S1(x) == Tag(x, "path=same_sign")
      S2(x) == Tag(x, "path=straddle")
      S3(x) == Tag(x, "path=straddle_subnormal_bound")
      S4(x) == Tag(x, "path=signed_zero_bound")
      O(x) == ~InDom(x)
  IN  PrintT(<<"MCSTAT", [total |-> Cardinality(Args), default |-> Count(D), same_sign |-> Count(S1),
                          straddle |-> Count(S2), straddle_subnormal_bound |-> Count(S3),
                          signed_zero_bound |-> Count(S4), outside_domain |-> Count(O)]>>)
=============================================================================
