---------------------------- MODULE FAPrinterEval ----------------------------
(***************************************************************************)
(* C05 clause 4, spec side: the DIRECT EVALUATION of a node table on       *)
(* concrete inputs for graphs over the IEEE-exact kinds, bit for bit, with *)
(* full IEEE-754 semantics (NaN, infinities, signed zeros) on top of       *)
(* IEEE.tla (whose arithmetic is defined on finite operands).              *)
(*                                                                         *)
(* A value is [c, fmt, bits, im, z]:                                       *)
(*   c = "f"  float of format name fmt with pattern bits                   *)
(*   c = "z"  complex: components of format fmt, patterns bits / im        *)
(*   c = "b"  boolean z # 0          c = "i"  Python int z                 *)
(*   c = "x"  not evaluated: kind outside the exact set, mixed precisions, *)
(*            or (Python) an operation that raises - the sample is then    *)
(*            not judged by this evaluator                                 *)
(* Every node is evaluated once, in table order (operands first), in its   *)
(* static type: this is what "direct evaluation of the graph" means.  The  *)
(* primitives are the three targets' (they agree on these kinds):          *)
(*   maximum(a, b) = if a < b then b else a     (Python max, std::max)     *)
(*   minimum(a, b) = if b < a then b else a     (Python min, std::min)     *)
(*   comparisons false on NaN (ne true), +0 = -0;  select picks a branch;  *)
(*   absolute / negative act on the sign bit; square(x) = x * x rounded.   *)
(***************************************************************************)
EXTENDS FAPrinter

XV == [c |-> "x", fmt |-> "", bits |-> <<>>, im |-> <<>>, z |-> ZZero]
FV(fmt, bits) == [c |-> "f", fmt |-> fmt, bits |-> bits, im |-> <<>>, z |-> ZZero]
ZV(fmt, re, im) == [c |-> "z", fmt |-> fmt, bits |-> re, im |-> im, z |-> ZZero]
BV(b) == [c |-> "b", fmt |-> "", bits |-> <<>>, im |-> <<>>, z |-> IF b THEN ZFromInt(1) ELSE ZZero]
IV(z) == [c |-> "i", fmt |-> "", bits |-> <<>>, im |-> <<>>, z |-> z]
Truth(v) == v.z # ZZero

(*************************** full IEEE arithmetic **************************)
XSign(f, x, y) == (SignBit(f, x) + SignBit(f, y)) % 2
XAdd(f, x, y) ==
  IF IsNaN(f, x) \/ IsNaN(f, y) THEN QNaN(f)
  ELSE IF IsInf(f, x) /\ IsInf(f, y) THEN (IF SignBit(f, x) = SignBit(f, y) THEN x ELSE QNaN(f))
  ELSE IF IsInf(f, x) THEN x ELSE IF IsInf(f, y) THEN y
  ELSE FAdd(f, x, y)
XNeg(f, x) == FNeg(f, x)
XSub(f, x, y) == XAdd(f, x, IF IsNaN(f, y) THEN y ELSE XNeg(f, y))
XMul(f, x, y) ==
  IF IsNaN(f, x) \/ IsNaN(f, y) THEN QNaN(f)
  ELSE IF IsInf(f, x) \/ IsInf(f, y) THEN
         (IF IsZero(f, x) \/ IsZero(f, y) THEN QNaN(f) ELSE WithSign(f, XSign(f, x, y), InfMag(f)))
  ELSE FMul(f, x, y)
\* pyraise: Python raises ZeroDivisionError on a zero divisor (not evaluated then)
XDiv(f, x, y) ==
  IF IsNaN(f, x) \/ IsNaN(f, y) THEN QNaN(f)
  ELSE IF IsInf(f, x) THEN (IF IsInf(f, y) THEN QNaN(f) ELSE WithSign(f, XSign(f, x, y), InfMag(f)))
  ELSE IF IsInf(f, y) THEN WithSign(f, XSign(f, x, y), <<>>)
  ELSE IF IsZero(f, y) THEN (IF IsZero(f, x) THEN QNaN(f) ELSE WithSign(f, XSign(f, x, y), InfMag(f)))
  ELSE FDiv(f, x, y)
XSqrt(f, x) ==
  IF IsNaN(f, x) THEN QNaN(f)
  ELSE IF IsZero(f, x) THEN x
  ELSE IF SignBit(f, x) = 1 THEN QNaN(f)
  ELSE IF IsInf(f, x) THEN x
  ELSE FSqrt(f, x)
XLt(f, x, y) == ~IsNaN(f, x) /\ ~IsNaN(f, y) /\ ZCmp(Ord(f, x), Ord(f, y)) < 0
XEq(f, x, y) == ~IsNaN(f, x) /\ ~IsNaN(f, y) /\ ZCmp(Ord(f, x), Ord(f, y)) = 0

(*************************** evaluation ************************************)
ExactKinds == {"symbol", "constant", "add", "subtract", "multiply", "divide", "sqrt", "absolute", "negative", "positive",
               "minimum", "maximum", "lt", "le", "gt", "ge", "eq", "ne", "select", "logical_and", "logical_or",
               "logical_not", "logical_xor", "upcast", "downcast", "square", "is_finite", "real", "imag", "complex",
               "conjugate"}

\* operand as a float of format name g (exact for a widening, integers rounded)
AsF(v, g) == IF v.c = "f" THEN (IF v.fmt = g THEN v ELSE FV(g, Conv(FmtOf(v.fmt), FmtOf(g), v.bits)))
             ELSE IF v.c = "i" THEN FV(g, IntToF(FmtOf(g), v.z))
             ELSE XV
\* all float operands have the node's format (no implicit promotion is modelled), at least one is a float
Uniform(vs, g) == /\ \A j \in 1..Len(vs) : vs[j].c \in {"f", "i"} /\ (vs[j].c = "f" => vs[j].fmt = g)
                  /\ \E j \in 1..Len(vs) : vs[j].c = "f"

ConstValue(target, n) ==
  LET nv == NodeVal(target, n)
  IN  IF ~nv.ok THEN XV
      ELSE IF nv.cls = "float" /\ IsComplexT(n.t) /\ target # "python" THEN ZV(nv.fmt, nv.bits, <<>>)
      ELSE IF nv.cls = "float" THEN FV(nv.fmt, nv.bits)
      ELSE IF nv.cls = "bool" THEN BV(nv.z # ZZero)
      ELSE IF target = "python" THEN IV(nv.z) ELSE XV

EvalNode(target, n, vals, inputs) ==
  LET k == n.k
      g == IF target = "python" /\ n.t = "float" THEN "float64" ELSE FmtNameOf(n.t)
      f == FmtOf(g)
      vs == [j \in 1..Len(n.a) |-> vals[n.a[j]]]
      anyX == \E j \in 1..Len(n.a) : vals[n.a[j]].c = "x"
      a == AsF(vs[1], g).bits
      b == AsF(vs[2], g).bits
  IN  IF k = "symbol" THEN (IF n.n \in DOMAIN inputs THEN inputs[n.n] ELSE XV)
      ELSE IF k = "constant" THEN ConstValue(target, n)
      ELSE IF anyX \/ k \notin ExactKinds THEN XV
      ELSE IF k \in {"add", "subtract", "multiply", "divide"} THEN
             (IF ~IsFloatT(n.t) \/ ~Uniform(vs, g) THEN XV
              ELSE CASE k = "add" -> FV(g, XAdd(f, a, b))
                     [] k = "subtract" -> FV(g, XSub(f, a, b))
                     [] k = "multiply" -> FV(g, XMul(f, a, b))
                     [] k = "divide" -> IF target = "python" /\ IsZero(f, b) THEN XV ELSE FV(g, XDiv(f, a, b)))
      ELSE IF k \in {"sqrt", "square", "negative", "positive", "absolute"} THEN
             (IF vs[1].c # "f" \/ vs[1].fmt # g THEN XV
              ELSE CASE k = "sqrt" -> IF target = "python" /\ SignBit(f, a) = 1 /\ ~IsZero(f, a) /\ ~IsNaN(f, a) THEN XV ELSE FV(g, XSqrt(f, a))
                     [] k = "square" -> FV(g, XMul(f, a, a))
                     [] k = "negative" -> FV(g, XNeg(f, a))
                     [] k = "positive" -> vs[1]
                     [] k = "absolute" -> FV(g, FAbs(f, a)))
      ELSE IF k \in {"minimum", "maximum"} THEN
             (IF vs[1].c # "f" \/ vs[2].c # "f" \/ vs[1].fmt # g \/ vs[2].fmt # g THEN XV
              ELSE IF k = "maximum" THEN (IF XLt(f, a, b) THEN vs[2] ELSE vs[1])
              ELSE (IF XLt(f, b, a) THEN vs[2] ELSE vs[1]))
      ELSE IF k \in {"lt", "le", "gt", "ge", "eq", "ne"} THEN
             (LET h == IF vs[1].c = "f" THEN vs[1].fmt ELSE IF vs[2].c = "f" THEN vs[2].fmt ELSE ""
                  fh == FmtOf(h)
                  x == AsF(vs[1], h).bits
                  y == AsF(vs[2], h).bits
              IN  IF h = "" \/ ~Uniform(vs, h) THEN XV
                  ELSE CASE k = "lt" -> BV(XLt(fh, x, y)) [] k = "gt" -> BV(XLt(fh, y, x))
                         [] k = "le" -> BV(XLt(fh, x, y) \/ XEq(fh, x, y)) [] k = "ge" -> BV(XLt(fh, y, x) \/ XEq(fh, x, y))
                         [] k = "eq" -> BV(XEq(fh, x, y)) [] k = "ne" -> BV(~XEq(fh, x, y)))
      ELSE IF k \in {"logical_and", "logical_or", "logical_xor"} THEN
             (IF vs[1].c # "b" \/ vs[2].c # "b" THEN XV
              ELSE CASE k = "logical_and" -> BV(Truth(vs[1]) /\ Truth(vs[2]))
                     [] k = "logical_or" -> BV(Truth(vs[1]) \/ Truth(vs[2]))
                     [] k = "logical_xor" -> BV(Truth(vs[1]) # Truth(vs[2])))
      ELSE IF k = "logical_not" THEN (IF vs[1].c # "b" THEN XV ELSE BV(~Truth(vs[1])))
      ELSE IF k = "is_finite" THEN (IF vs[1].c # "f" THEN XV ELSE BV(IsFinite(FmtOf(vs[1].fmt), vs[1].bits)))
      ELSE IF k = "select" THEN
             (IF vs[1].c # "b" THEN XV
              ELSE LET ch == IF Truth(vs[1]) THEN vs[2] ELSE vs[3]
                   IN  IF vs[2].c = "b" /\ vs[3].c = "b" THEN ch
                       ELSE IF vs[2].c = "f" /\ vs[3].c = "f" /\ vs[2].fmt = g /\ vs[3].fmt = g THEN ch
                       ELSE IF vs[2].c = "z" /\ vs[3].c = "z" /\ vs[2].fmt = vs[3].fmt THEN ch
                       ELSE XV)
      ELSE IF k \in {"upcast", "downcast"} THEN
             (IF vs[1].c # "f" \/ ~IsFloatT(n.t) \/ g \notin {"float16", "float32", "float64"} THEN XV ELSE AsF(vs[1], g))
      ELSE IF k = "complex" THEN
             (IF vs[1].c # "f" \/ vs[2].c # "f" \/ vs[1].fmt # vs[2].fmt \/ vs[1].fmt # g THEN XV ELSE ZV(g, vs[1].bits, vs[2].bits))
      ELSE IF k = "real" THEN (IF vs[1].c = "z" THEN FV(vs[1].fmt, vs[1].bits) ELSE IF vs[1].c = "f" THEN vs[1] ELSE XV)
      ELSE IF k = "imag" THEN (IF vs[1].c = "z" THEN FV(vs[1].fmt, vs[1].im) ELSE XV)
      ELSE IF k = "conjugate" THEN (IF vs[1].c = "z" THEN ZV(vs[1].fmt, vs[1].bits, XNeg(FmtOf(vs[1].fmt), vs[1].im)) ELSE XV)
      ELSE XV

RECURSIVE EvalAll(_, _, _, _, _)
EvalAll(target, nodes, inputs, vals, m) ==
  IF m > Len(nodes) THEN vals
  ELSE EvalAll(target, nodes, inputs, Append(vals, EvalNode(target, nodes[m], vals, inputs)), m + 1)

\* strict evaluation: every node of the table is evaluated; the result is the root's value, or "x" as
\* soon as some node is not evaluated (a raising node makes the whole direct evaluation raise)
EvalGraph(target, nodes, root, inputs) ==
  LET vals == EvalAll(target, nodes, inputs, <<>>, 1)
  IN  IF \E m \in 1..Len(nodes) : vals[m].c = "x" THEN XV ELSE vals[root]

\* two recorded / computed results agree: same class, same format, same pattern; any NaN equals any NaN
SamePart(fmt, x, y) == x = y \/ (IsNaN(FmtOf(fmt), x) /\ IsNaN(FmtOf(fmt), y))
SameResult(x, y) ==
  /\ x.c = y.c
  /\ CASE x.c = "f" -> x.fmt = y.fmt /\ SamePart(x.fmt, x.bits, y.bits)
       [] x.c = "z" -> x.fmt = y.fmt /\ SamePart(x.fmt, x.bits, y.bits) /\ SamePart(x.fmt, x.im, y.im)
       [] x.c \in {"b", "i"} -> x.z = y.z
       [] x.c = "raise" -> x.fmt = y.fmt           \* exception class name travels in fmt
       [] OTHER -> FALSE
=============================================================================
