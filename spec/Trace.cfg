SPECIFICATION Spec
POSTCONDITION Consumed
CHECK_DEADLOCK FALSE
