------------------------------ MODULE TraceKit ------------------------------
(***************************************************************************)
(* Common plumbing of the stateless trace specifications: the recorded     *)
(* execution is an ndjson file (one event per line, each with an integer   *)
(* "id"), one line is consumed per step.  A family module defines          *)
(* Fails(e) - the set of names of property clauses that event e violates - *)
(* and instantiates the step below.  Verdicts are total: a failing event   *)
(* is reported and the run continues, so the rest of the trace is checked. *)
(***************************************************************************)
EXTENDS TLC, Json, IOUtils, Sequences, Naturals

Trace == ndJsonDeserialize(IOEnv.TRACE_FILE)

Report(e, fails) == IF fails = {} THEN TRUE ELSE PrintT(<<"FAIL", e.id, fails>>)
Note(e, what) == PrintT(<<"NOTE", e.id, what>>)

\* POSTCONDITION: number of consumed lines (initial state excluded)
Consumed == PrintT(<<"DONE", TLCGet("stats").diameter - 1>>)

Has(e, k) == k \in DOMAIN e
=============================================================================
