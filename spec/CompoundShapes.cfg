\* U2 of C11: enumeration of the operand shapes (5600 product-sum/sum/dot/unary shapes)
SPECIFICATION Spec
INVARIANT Emit
CHECK_DEADLOCK FALSE
