--------------------------- MODULE SymmetryShapes ---------------------------
(***************************************************************************)
(* U2 for C03: TLC enumerates the abstract input classes - one state per   *)
(* shape, printed as <<"S", shape>> - and the driver                       *)
(* (harness/props/c03.py) concretises every shape into float32 and float64 *)
(* points, whose orbits under the sign symmetries it evaluates with every  *)
(* algorithm.                                                              *)
(*   complex argument: <<"c", cx, cy, rel>> - the class of |re z|, the     *)
(*     class of |im z| (Symmetry!Classes: zeros, subnormals, the smallest  *)
(*     normal, the region boundaries named in algorithms.py, the largest   *)
(*     finite number, infinity, NaN, and the ranges between them) and the  *)
(*     relation of the two magnitudes: rel \in {"lt", "eq", "gt"} when both *)
(*     components are drawn from the same range class (|x| < |y|, |x| =    *)
(*     |y|, |x| > |y|), "na" otherwise (the classes determine it).         *)
(*   real argument: <<"r", cx>>.                                           *)
(* Signs are not part of a shape: every point is evaluated together with   *)
(* its images under Conj and Neg (one orbit per point), and both orders of *)
(* the classes are enumerated, so the set is closed under RotI as well.    *)
(* The driver sends the class it claims for every concretised point back   *)
(* in "shape" events, which Trace_Symmetry checks with Symmetry!ClassHolds *)
(* / RelHolds.                                                             *)
(***************************************************************************)
EXTENDS Symmetry, TLC
VARIABLE c

CShapes ==
  {<<"c", cx, cy, "na">> : cx \in Classes, cy \in Classes}
  \cup {<<"c", cx, cx, rel>> : cx \in RangeClasses, rel \in {"lt", "eq", "gt"}}
  \cup {<<"c", cx, cx, "eq">> : cx \in AboveClasses \cup BelowOneClasses}
\* a pair of equal range classes is enumerated with its relation, not as "na"
ShapeOK(s) == ~(s[4] = "na" /\ s[2] = s[3] /\ s[2] \in RangeClasses)
RShapes == {<<"r", cx>> : cx \in Classes}

Init == c \in {s \in CShapes : ShapeOK(s)} \cup RShapes
Next == UNCHANGED c
Spec == Init /\ [][Next]_c
Emit == PrintT(<<"S", c>>)
=============================================================================
