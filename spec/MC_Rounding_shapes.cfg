\* U2: shape enumeration (conversion shapes and backend configurations) for float16/32/64
SPECIFICATION Spec
CONSTANTS
  ManBits = 7
  ExpLo <- MC_ExpLo
  ExpHi = 5
  PairMax = 0
  What = "shapes"
INVARIANT EmitShape
CHECK_DEADLOCK FALSE
