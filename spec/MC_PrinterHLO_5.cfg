\* MC_PrinterHLO: all connected DAGs with <= 5 nodes x all force_ref subsets, Alias = FALSE (alias: SoundS must be violated)
SPECIFICATION Spec
CONSTANTS
  MaxNodes = 5
  Alias = FALSE
INVARIANT SoundS
CHECK_DEADLOCK FALSE
