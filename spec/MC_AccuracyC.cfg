\* U1 (quick): laws of the complex enclosures on the grid (j + ik)/2, |j|,|k| <= 4, W = 48; toy format (p 4, emax 7, w 8) on 14 patterns per component
SPECIFICATION Spec
CONSTANTS
  GridN = 4
  GridShift = 1
  Scales <- ScalesQuick
  Ws = {48}
  TP = 4
  TEMAX = 7
  TW = 8
  ToyFull = FALSE
  Sabotage = 0
INVARIANT LawsOK
INVARIANT Count
CHECK_DEADLOCK FALSE
