------------------------------ MODULE UlpShapes -----------------------------
(***************************************************************************)
(* U2 generator for C14: TLC enumerates all ordered pairs of operand       *)
(* SHAPES (46 x 46) and concretises each shape for float16/32/64 with      *)
(* IEEE.tla; the driver replays the printed bit patterns into              *)
(* utils.diff_ulp (both flush modes, scalar, array and complex calls) and  *)
(* utils.ulp.  Constants: none (formats F16, F32, F64 of IEEE.tla).        *)
(***************************************************************************)
EXTENDS IEEE, TLC
(* A shape is <<kind, j, neg>>: a magnitude ordinal given as a function of the format,     *)
(* and a sign.  Concretised by ShapeBits for any format.                                   *)
VARIABLES sx, sy
svars == <<sx, sy>>
MagShapes ==
  {<<"zero", 0>>, <<"sub", 1>>, <<"sub", 2>>,
   <<"half", -1>>, <<"half", 0>>, <<"half", 1>>,          \* around half the min normal
   <<"minnormal", -1>>, <<"minnormal", 0>>, <<"minnormal", 1>>,
   <<"binade_lo", -1>>, <<"binade_lo", 0>>, <<"binade_lo", 1>>,     \* exponent field 2
   <<"one", -1>>, <<"one", 0>>, <<"one", 1>>,                       \* around 1.0
   <<"two", -1>>, <<"two", 0>>, <<"two", 1>>,                       \* around 2.0
   <<"binade_hi", -1>>, <<"binade_hi", 0>>, <<"binade_hi", 1>>,     \* top binade
   <<"largest", -1>>, <<"largest", 0>>}
Shapes == {<<m[1], m[2], s>> : m \in MagShapes, s \in {0, 1}}

NOff(a, j) == IF j < 0 THEN NSub(a, NFromInt(-j)) ELSE NAdd(a, NFromInt(j))
ShapeMag(f, kind, j) ==
  CASE kind = "zero" -> <<>>
    [] kind = "sub" -> NFromInt(j)
    [] kind = "half" -> NOff(NPow2(f.p - 2), j)
    [] kind = "minnormal" -> NOff(MinNormalMag(f), j)
    [] kind = "binade_lo" -> NOff(NShl(NFromInt(2), f.p - 1), j)
    [] kind = "one" -> NOff(NShl(NFromInt(f.emax), f.p - 1), j)
    [] kind = "two" -> NOff(NShl(NFromInt(f.emax + 1), f.p - 1), j)
    [] kind = "binade_hi" -> NOff(NShl(NFromInt(NExpFields(f) - 2), f.p - 1), j)
    [] kind = "largest" -> NOff(LargestMag(f), j)
ShapeBits(f, s) == WithSign(f, s[3], ShapeMag(f, s[1], s[2]))

ShapeInit == sx \in Shapes /\ sy \in Shapes
ShapeNext == UNCHANGED svars
ShapeSpec == ShapeInit /\ [][ShapeNext]_svars
ShapePrint ==
  PrintT(<<"P", sx, sy,
           ShapeBits(F16, sx), ShapeBits(F16, sy),
           ShapeBits(F32, sx), ShapeBits(F32, sy),
           ShapeBits(F64, sx), ShapeBits(F64, sy)>>)
\* every concretised shape is a finite pattern of its format
ShapeFinite == \A f \in {F16, F32, F64} : IsFinite(f, ShapeBits(f, sx)) /\ IsFinite(f, ShapeBits(f, sy))
=============================================================================
