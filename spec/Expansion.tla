------------------------------ MODULE Expansion ------------------------------
(***************************************************************************)
(* C12 - floating-point expansion arithmetic preserves value and normal    *)
(* form (functional_algorithms.apmath: renormalize, add, subtract,         *)
(* multiply, square).                                                      *)
(*                                                                         *)
(* An expansion is a list of raw bit patterns of a format f of IEEE.tla;   *)
(* its value is the exact dyadic sum of the values of its items.           *)
(*                                                                         *)
(* ulp(x) is the quantum of x (2^Quantum(f, x): spacing of the lattice at  *)
(* |x|; the quantum of the subnormals for x = 0 and subnormal x).          *)
(*                                                                         *)
(* Overlap.  utils.overlapping(x, y) of the code under test says: equal    *)
(* items overlap; a zero overlaps nothing; otherwise x and y overlap iff   *)
(* |x| >= ulp(y) and |y| >= ulp(x).  The statement's "non-zero neighbours  *)
(* do not overlap" is read exactly so (the weakest reading consistent with *)
(* that documentation: symmetric, zeros exempt):                           *)
(*    NonOverlap(a, b) <=> a = 0 \/ b = 0 \/ |b| < ulp(a) \/ |a| < ulp(b)  *)
(* Together with "ordered by decreasing magnitude" (|a| > |b| for          *)
(* consecutive non-zero items; zeros are skipped) this is |b| < ulp(a).    *)
(*                                                                         *)
(* Normal form NF(l): the non-zero items of l, in order, are strictly      *)
(* decreasing in magnitude and each consecutive pair is NonOverlap.        *)
(*                                                                         *)
(* Domain predicates (all computed here from the logged inputs):           *)
(*  NoOverflow(l)  all items finite and sum_i |l_i| < 2^(emax-1): no       *)
(*                 rounded partial sum of any sub-list in any order can    *)
(*                 reach the overflow threshold ("absent overflow", made   *)
(*                 independent of the order of summation; the margin of    *)
(*                 two binades absorbs the roundings of the running sums,  *)
(*                 which sum |l_i| <= largest does not: MC_Expansion found *)
(*                 3 + 10 + 1 -> inf on the toy format).                   *)
(*  FastOK(l)      for fast = True (Fast2Sum instead of 2Sum).  The        *)
(*                 docstring of renormalize demands inputs of decreasing   *)
(*                 magnitude for fast = True and warns that the output is  *)
(*                 inaccurate otherwise; Fast2Sum(x, y) itself is only     *)
(*                 specified for exponent(x) >= exponent(y) (or a zero     *)
(*                 operand).  LENIENCY: fast = True is judged only when    *)
(*                 the input is Sorted (the docstring's precondition) AND  *)
(*                 every Fast2Sum application of the documented algorithm  *)
(*                 (VecSum right-to-left, then VecSumErrBranch, run here   *)
(*                 with the ideal error-free sum) meets that precondition. *)
(*                 (Lists of decreasing magnitude whose items share a      *)
(*                 binade can fail it, and the code then changes the sum;  *)
(*                 that is reported as a NOTE, not as a failure.)          *)
(*  truncation     a size limit "truncates" a result unless the number of  *)
(*                 input items is within the limit or the result has fewer *)
(*                 non-zero items than the limit (then nothing was cut).   *)
(*  product domain multiply/square are judged when no partial product can  *)
(*                 overflow (sum|a| * sum|b| < 2^(emax-2)) and no          *)
(*                 partial product can underflow (Quantum(a_i) +           *)
(*                 Quantum(b_j) >= QMin for all non-zero items: every      *)
(*                 term of Dekker's product is then a multiple of the      *)
(*                 smallest subnormal), fast = False only (the docstring   *)
(*                 of multiply: "when fast=True, the result will be very   *)
(*                 likely inaccurate").                                    *)
(*                                                                         *)
(* The transcriptions of the code (CodeEager, CodeFunctional) are used by  *)
(* MC_Expansion (U1) and for drift NOTES in the trace spec, never for a    *)
(* verdict.                                                                *)
(***************************************************************************)
EXTENDS IEEE, FiniteSets

(*************************** values ****************************************)
RECURSIVE SumFrom(_, _, _)
SumFrom(f, l, i) == IF i > Len(l) THEN DZero ELSE DAdd(Val(f, l[i]), SumFrom(f, l, i + 1))
Sum(f, l) == SumFrom(f, l, 1)
RECURSIVE AbsSumFrom(_, _, _)
AbsSumFrom(f, l, i) == IF i > Len(l) THEN DZero ELSE DAdd(DAbs(Val(f, l[i])), AbsSumFrom(f, l, i + 1))
AbsSum(f, l) == AbsSumFrom(f, l, 1)

AllFinite(f, l) == \A i \in 1..Len(l) : IsFinite(f, l[i])
RECURSIVE NZFrom(_, _, _)
NZFrom(f, l, i) == IF i > Len(l) THEN <<>>
                   ELSE IF IsZero(f, l[i]) THEN NZFrom(f, l, i + 1) ELSE <<l[i]>> \o NZFrom(f, l, i + 1)
NZ(f, l) == NZFrom(f, l, 1)                       \* the non-zero items, in order
NNZ(f, l) == Len(NZ(f, l))

PosD(mag, e) == <<<<0, mag>>, e>>
LargestD(f) == PosD(NSub(NPow2(f.p), NOne), QMax(f))
\* exponent of the leading bit of a non-zero finite x
Lead(f, x) == DLead(Val(f, x))
\* ordinal comparison of magnitudes
MagLt(f, a, b) == NCmp(Mag(f, a), Mag(f, b)) < 0
MagLe(f, a, b) == NCmp(Mag(f, a), Mag(f, b)) <= 0
SameVal(f, a, b) == a = b \/ (IsZero(f, a) /\ IsZero(f, b))
SameVals(f, a, b) == Len(a) = Len(b) /\ \A i \in 1..Len(a) : SameVal(f, a[i], b[i])

(*************************** normal form ***********************************)
\* |b| < ulp(a) for non-zero finite a, b
Below(f, a, b) == Lead(f, b) < Quantum(f, a)
NonOverlap(f, a, b) == IsZero(f, a) \/ IsZero(f, b) \/ Below(f, a, b) \/ Below(f, b, a)
NFnz(f, nz) == \A i \in 1..(Len(nz) - 1) : MagLt(f, nz[i + 1], nz[i]) /\ NonOverlap(f, nz[i], nz[i + 1])
NF(f, l) == NFnz(f, NZ(f, l))
ZerosRight(f, l) == \A i \in 1..(Len(l) - 1) : IsZero(f, l[i]) => IsZero(f, l[i + 1])
\* the docstring's precondition: magnitudes of the non-zero items do not increase
SortedNz(f, nz) == \A i \in 1..(Len(nz) - 1) : MagLe(f, nz[i + 1], nz[i])
Sorted(f, l) == SortedNz(f, NZ(f, l))

(*************************** domains ***************************************)
NoOverflow(f, l) == AllFinite(f, l) /\ DLt(AbsSum(f, l), PosD(NOne, f.emax - 1))

\* "the maximal size of expansion that a given floating-point system enables"
\* (docstring of renormalize; 4 / 12 / 40 for float16 / 32 / 64)
MaxTerms(f) == ((f.emax + 1) - EMin(f) + (f.p - 1)) \div (f.p - 1)
NoLimit == 1000000
\* size = -1 encodes "not given"
Limit(f, size, dtlimit) == Min(IF size = -1 THEN NoLimit ELSE size, IF dtlimit THEN MaxTerms(f) ELSE NoLimit)
NotTruncated(f, nin, out, limit) == nin <= limit \/ NNZ(f, out) < limit

\* product domain
RECURSIVE MinQFrom(_, _, _)
MinQFrom(f, l, i) == IF i > Len(l) THEN 100000
                     ELSE IF IsZero(f, l[i]) THEN MinQFrom(f, l, i + 1)
                     ELSE Min(Quantum(f, l[i]), MinQFrom(f, l, i + 1))
MinQ(f, l) == MinQFrom(f, l, 1)
MulDomain(f, a, b) ==
  /\ a # <<>> /\ b # <<>> /\ AllFinite(f, a) /\ AllFinite(f, b)
  /\ DLt(DMul(AbsSum(f, a), AbsSum(f, b)), PosD(NOne, f.emax - 2))
  /\ (NNZ(f, a) = 0 \/ NNZ(f, b) = 0 \/ MinQ(f, a) + MinQ(f, b) >= QMin(f))

(*************************** error-free sum ********************************)
\* mode "ideal": s = RN(x + y), t = x + y - s (exact whenever s is finite);
\* mode "safe":  the code's 2Sum     s = x + y; z = s - x; t = (x - (s - z)) + (y - z)
\* mode "fast":  the code's Fast2Sum s = x + y; z = s - x; t = y - z
TS(f, x, y, mode) ==
  LET s == FAdd(f, x, y)
  IN  IF ~IsFinite(f, s) THEN [s |-> s, t |-> PosZero(f)]
      ELSE IF mode = "ideal" THEN [s |-> s, t |-> RN(f, DSub(DAdd(Val(f, x), Val(f, y)), Val(f, s)))]
      ELSE LET z == FSub(f, s, x)
           IN  IF mode = "fast" THEN [s |-> s, t |-> FSub(f, y, z)]
               ELSE [s |-> s, t |-> FAdd(f, FSub(f, x, FSub(f, s, z)), FSub(f, y, z))]
\* precondition of Fast2Sum(x, y): exponent(x) >= exponent(y), or a zero operand
F2SOk(f, x, y) == IsZero(f, x) \/ IsZero(f, y) \/ Quantum(f, x) >= Quantum(f, y)

(*************************** VecSum ****************************************)
\* items i..n summed right to left: [s: running sum, e: errors e_(i+1)..e_n, ok: Fast2Sum
\* preconditions met, fin: every running sum finite]
RECURSIVE VSumFrom(_, _, _, _)
VSumFrom(f, l, i, mode) ==
  IF i = Len(l) THEN [s |-> l[i], e |-> <<>>, ok |-> TRUE, fin |-> IsFinite(f, l[i])]
  ELSE LET r == VSumFrom(f, l, i + 1, mode)
           t == TS(f, l[i], r.s, mode)
       IN  [s |-> t.s, e |-> <<t.t>> \o r.e, ok |-> r.ok /\ F2SOk(f, l[i], r.s),
            fin |-> r.fin /\ IsFinite(f, t.s)]
\* vecsum(seq) of the code: [RN-sum, e_1 .. e_(n-1)]
VecSum(f, l, mode) == LET r == VSumFrom(f, l, 1, mode) IN [e |-> <<r.s>> \o r.e, ok |-> r.ok, fin |-> r.fin]

(*************************** VecSumErrBranch, eager ************************)
\* e = VecSum output; the loop at index i (1 .. n-1) holds eps and adds e[i + 1]
RECURSIVE ErrBranchFrom(_, _, _, _, _)
ErrBranchFrom(f, e, i, eps, mode) ==
  IF i > Len(e) - 1 THEN [out |-> IF IsZero(f, eps) THEN <<>> ELSE <<eps>>, ok |-> TRUE, fin |-> TRUE]
  ELSE LET t == TS(f, eps, e[i + 1], mode)
           ok == F2SOk(f, eps, e[i + 1])
           fin == IsFinite(f, t.s)
       IN  IF ~IsZero(f, t.t)
           THEN LET r == ErrBranchFrom(f, e, i + 1, t.t, mode)
                IN  [out |-> <<t.s>> \o r.out, ok |-> ok /\ r.ok, fin |-> fin /\ r.fin]
           ELSE LET r == ErrBranchFrom(f, e, i + 1, t.s, mode)
                IN  [out |-> r.out, ok |-> ok /\ r.ok, fin |-> fin /\ r.fin]

Take(l, k) == IF k >= Len(l) THEN l ELSE SubSeq(l, 1, k)
Pad(f, l, m) == l \o [i \in 1..(m - Len(l)) |-> PosZero(f)]

\* renormalize(seq, functional=False, fast, size) without the truncation: [out, ok, fin]
RenormRun(f, l, mode) ==
  LET v == VecSum(f, l, mode)
      b == ErrBranchFrom(f, v.e, 1, v.e[1], mode)
  IN  [out |-> b.out, ok |-> v.ok /\ b.ok, fin |-> v.fin /\ b.fin]
CodeEager(f, l, mode, limit) == Take(RenormRun(f, l, mode).out, limit)

\* every Fast2Sum of the documented algorithm meets its precondition
FastOK(f, l) == l # <<>> /\ RenormRun(f, l, "ideal").ok

(*************************** VecSumErrBranch + nztopk, functional **********)
\* the select-based loop: fixed length n, zeros where the eager loop appends nothing
RECURSIVE FErrBranchFrom(_, _, _, _, _, _)
FErrBranchFrom(f, e, i, eps, mode, branch) ==
  IF i > Len(e) - 1 THEN <<eps>>
  ELSE LET t == TS(f, eps, e[i + 1], mode)
       IN  IF branch
           THEN LET p == ~IsZero(f, t.t)
                IN  <<IF p THEN t.s ELSE PosZero(f)>>
                    \o FErrBranchFrom(f, e, i + 1, IF p THEN t.t ELSE t.s, mode, branch)
           ELSE <<t.s>> \o FErrBranchFrom(f, e, i + 1, t.t, mode, branch)

\* nztopk(seq, k): "top k non-zero elements", functional-friendly
NzCount(f, seq, j) == Cardinality({m \in 1..(j - 1) : ~IsZero(f, seq[m])})
NzTopK(f, seq, k) ==
  IF k = 0 \/ seq = <<>> THEN <<>>
  ELSE IF Len(seq) = 1 THEN seq
  ELSE IF Len(seq) = 2 THEN
     LET flag == IsZero(f, seq[1])
         first == IF flag THEN seq[2] ELSE seq[1]
         second == IF flag THEN seq[1] ELSE seq[2]
     IN  IF k = 1 THEN <<first>> ELSE <<first, second>>
  ELSE [i \in 1..Min(k, Len(seq)) |->
          LET hit == {j \in i..Len(seq) : ~IsZero(f, seq[j]) /\ NzCount(f, seq, j) = i - 1}
          IN  IF hit = {} THEN PosZero(f) ELSE seq[CHOOSE j \in hit : TRUE]]

\* fl = the fixed-length list the select-based loop produces from v = VecSum(f, l, mode)
FunctionalList(f, l, v, mode) == FErrBranchFrom(f, v.e, 1, v.e[1], mode, Len(l) > 2)
CodeFunctional(f, l, mode, limit) ==
  LET fl == FunctionalList(f, l, VecSum(f, l, mode), mode)
  IN  NzTopK(f, fl, Min(limit, Len(fl)))

(*************************** clause sets ***********************************)
\* One renormalisation pass  out = renormalize(in, functional, fast, size):
\* names of the violated clauses.  functional: fixed length, zeros to the right.
\*   raised        the call raised an exception
\*   nonfinite     inside the domain but an output item is not finite
\*   length        eager: longer than the input or than the limit;
\*                 functional: length differs from min(limit, len(in))
\*   zeros_right   functional: a non-zero item follows a zero
\*   sum           exact sum changed (NoOverflow, FastOK when fast, not truncated)
PassDomain(f, in, fast) == in # <<>> /\ NoOverflow(f, in) /\ (fast => FastOK(f, in))
PassFails(f, in, out, functional, fast, limit, dom) ==
  (IF functional
   THEN (IF Len(out) # Min(limit, Len(in)) THEN {"length"} ELSE {})
        \cup (IF AllFinite(f, out) /\ ~ZerosRight(f, out) THEN {"zeros_right"} ELSE {})
   ELSE (IF Len(out) > Min(limit, Len(in)) THEN {"length"} ELSE {}))
  \cup (IF ~dom THEN {}
        ELSE IF ~AllFinite(f, out) THEN {"nonfinite"}
        ELSE IF NotTruncated(f, Len(in), out, limit) /\ ~DEq(Sum(f, out), Sum(f, in)) THEN {"sum"}
        ELSE {})
=============================================================================
