\* U2 of C03: enumeration of the input classes (27 x 27 class pairs + the relations inside a range class;
\* 27 real classes)
SPECIFICATION Spec
INVARIANT Emit
CHECK_DEADLOCK FALSE
