\* U1 with body writes: 2 objects, 4 requests, nesting <= 2, behaviours <= 8 steps; the body may toggle FZ/DAZ,
\* change RC or raise a flag at any time inside a context: exit still restores the entry value, balanced use is
\* still the identity (NestIsComposition is not expected to hold while a body write is in effect)
SPECIFICATION SpecBody
CONSTANTS
  Objs <- MC_Objs2
  ReqSet <- MC_ReqTiny
  InitRegs <- MC_InitRegs
  DesiredAt = "enter"
  MaxDepth = 2
  MaxLevel = 8
CONSTRAINT Bounded
INVARIANTS TypeOK SavedIsEntry BalancedIsIdentity
PROPERTIES ExitRestores OnlyRequestedBits
CHECK_DEADLOCK FALSE
