\* U1 of C16: all pairs of polynomials with <= 3 coefficients from {-1, 0, 1, 1/2}; points {-2, 0, 1/2, 3}
SPECIFICATION Spec
CONSTANT MaxLen = 3
CONSTANT UseOne = TRUE
INVARIANT EvalAgree AddLaw MulLaw ScaleLaw DerivLaw DerivBase TaylorLaw RatioLaw DivLaw RevLaw LaurentLaw TrimLaw PowLaw
CHECK_DEADLOCK FALSE
