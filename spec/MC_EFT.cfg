\* U1 of C10, thorough: all ordered pairs of T4 = [p=4, emax=3, w=7]; all pairs (x >= 0, y) of T5 = [p=5, emax=7, w=9]
\* (480 finite patterns; 115200 pairs; the relations are odd-symmetric) for 2Sum / Fast2Sum / Dekker on every splitter
\* configuration; every finite operand of T4..T7 for the splitter; T4 triples (third operand every fifth pattern) for
\* the three-term sum
SPECIFICATION Spec
CONSTANTS
  PairFmts <- MC_T45
  SplitFmts <- MC_T4567
  TripleFmts <- MC_T4
  HalfFmts <- MC_T5
INVARIANTS Emit Holds WholeRange
CHECK_DEADLOCK FALSE
