\* U2 of C12, quick: all shapes of length <= 3, every 17th shape of length 4..6 (systematic sub-sample), all total-cancellation shapes
SPECIFICATION Spec
CONSTANTS
  Tier = "quick"
  Stride = 17
INVARIANT Emit
CHECK_DEADLOCK FALSE
