------------------------------ MODULE FAPrinter ------------------------------
(***************************************************************************)
(* C05/C06: an emitted program is a behaviour of a straight-line           *)
(* single-assignment machine over the REAL expression graph.               *)
(*                                                                         *)
(* The graph is a NODE TABLE nodes[1..N] (operands before users):          *)
(*   [k  kind ("symbol", "constant" or an operation kind),                 *)
(*    a  operand node ids in order,   t  static type ("float32", ...),     *)
(*    n  symbol name,  v  constant value encoding [c, neg, mag, fmt, bits, *)
(*    name, im]]                                                           *)
(* The program text, parsed by a parser that is independent of the         *)
(* package, is a flat table of TERM ROWS rows[1..R] (children before       *)
(* parents, statements in text order) [o, a, s, v] (see harness/           *)
(* fa_printer.py) and a list of statements                                 *)
(*   [op |-> "assign", var, ty, t]   var (: ty) = rows[t]                  *)
(*   [op |-> "return", t]            return rows[t]                        *)
(*   [op |-> "cast", var, ty]        p = T(p)   (argument cast)            *)
(*   [op |-> "assert", var, ty]      assert var.dtype == T  (debug >= 1)   *)
(*                                                                         *)
(* MACHINE.  State env : variable -> set of nodes it may denote (a set     *)
(* only because two constants with equal value and type are distinct       *)
(* nodes that denote the same thing).  Initially env = parameter -> its    *)
(* symbol node.                                                            *)
(*   Assign(var, rhs)  legal iff var \notin DOMAIN env (single             *)
(*       assignment), every variable in rhs is in DOMAIN env (definition   *)
(*       before use) and Den(rhs) # {} where Den is the DENOTATION of a    *)
(*       term:  Den(variable v) = env[v];  Den(constant expression) = the  *)
(*       constant nodes with that value (and type);  Den(op(t1..tk)) = the *)
(*       nodes n for which some pattern p in impl[n] binds op(t1..tk) with *)
(*       hole i bound to a sub-term ti such that n.a[i] \in Den(ti).       *)
(*       env' = env with var -> Den(rhs).                                  *)
(*   Return(term)      legal iff root \in Den(term).                       *)
(* impl[n] is the set of PATTERNS (terms with holes) that realise node n   *)
(* in the target language: the spec's own table (Impl below), written from *)
(* the languages' definitions, not from the package.  The table is an      *)
(* argument of the machine so that other targets (C06) bring their own.    *)
(* "Distinct sub-expressions never share a variable" is the fact that a    *)
(* variable occurrence must denote the operand node required at that       *)
(* position: a variable standing where a different node is required has no *)
(* denotation.                                                             *)
(*                                                                         *)
(* Verdicts are total: a term without denotation is reported once          *)
(* (classified: operator / operand_order / distinct_share / constant_value *)
(* / constant_type) and then treated as denoting anything.                 *)
(*                                                                         *)
(* Constants are matched by VALUE: RowVal gives the value of a constant    *)
(* expression of the language (literals - the decimal -> binary conversion *)
(* of the parser is re-verified by DecIsRN -, signed literals, math.inf,   *)
(* numpy.float32(...), numpy.finfo(T).max, std::numeric_limits<T>::max(),  *)
(* M_PI, casts ...), NodeVal the value a constant node denotes in the      *)
(* target (the stored object in Python, the stored value converted to the  *)
(* node's type elsewhere), ConstDenotes compares them (Python: same class  *)
(* and value; NumPy: same format, bit for bit; C++: the same number - the  *)
(* type the text computes in is judged by CppTypingFails).                 *)
(* Leniencies: complex literals are not interpreted (a complex constant    *)
(* expression may denote any complex constant node; execution covers       *)
(* them); constant nodes the driver could not encode match any constant    *)
(* expression; T(p) with T the declared type of parameter p is p; kinds in *)
(* WildKinds are matched against the package's own template; nothing above *)
(* an undefined name is judged again; integer-typed nodes are not subject  *)
(* to the C++ typing clause.                                               *)
(*                                                                         *)
(* Reuse (C06): bring an impl sequence (one set of patterns per node) and  *)
(* call RunProgram; add branches for the new target to TypeNames / RowVal  *)
(* if its constants are to be matched by value.                            *)
(* C06 (targets "stablehlo", "xla_client"; see FAPrinterHLO.tla) added,    *)
(* all guarded by target \in HLOTargets: TypeNames / WildKinds branches,   *)
(* RowValH (ScalarLike / ConstantLike rows, named constants matched by     *)
(* NAME), NodeValH, ConstDenotesH (the text's number converted to the      *)
(* node's element format), and ProgramVerdict (the body of RunProgram as   *)
(* an operator of its own, so that a target may post-process denotations). *)
(***************************************************************************)
EXTENDS IEEE, FiniteSets, TLC

(*************************** terms and patterns ****************************)
P(o, a) == [o |-> o, a |-> a, s |-> "", v |-> <<>>]
HoleName(i) == CASE i = 1 -> "1" [] i = 2 -> "2" [] i = 3 -> "3" [] i = 4 -> "4" [] OTHER -> "5"
HoleIdx(s) == CASE s = "1" -> 1 [] s = "2" -> 2 [] s = "3" -> 3 [] s = "4" -> 4 [] OTHER -> 5
H(i) == [o |-> "hole", a |-> <<>>, s |-> HoleName(i), v |-> <<>>]
LitDig(r) == r.v[1]
LitE10(r) == r.v[2]
LitBits(r) == r.v[3]
Nm(x) == P("name:" \o x, <<>>)
Call1(f, x) == P("call:" \o f, <<x>>)
Call2(f, x, y) == P("call:" \o f, <<x, y>>)
Call3(f, x, y, z) == P("call:" \o f, <<x, y, z>>)
Un(op, x) == P("un:" \o op, <<x>>)
Bin(op, x, y) == P("bin:" \o op, <<x, y>>)
Cmp(op, x, y) == P("cmp:" \o op, <<x, y>>)
BoolOp(op, x, y) == P("bool:" \o op, <<x, y>>)
Cond(c, x, y) == P("cond", <<c, x, y>>)
Attr(nm, x) == P("attr:" \o nm, <<x>>)
MCall0(nm, x) == P("mcall:" \o nm, <<x>>)
Cast(ty, x) == P("cast:" \o ty, <<x>>)
None == {}

(*************************** IR types **************************************)
FloatTypes == {"float", "float16", "float32", "float64"}
ComplexTypes == {"complex", "complex64", "complex128"}
IntTypes == {"integer", "integer8", "integer16", "integer32", "integer64"}
IsFloatT(t) == t \in FloatTypes
IsComplexT(t) == t \in ComplexTypes
IsIntT(t) == t \in IntTypes
\* binary format name of a float type / of the components of a complex type
FmtNameOf(t) == CASE t \in {"float", "float64", "complex", "complex128"} -> "float64"
                  [] t \in {"float32", "complex64"} -> "float32"
                  [] t = "float16" -> "float16"
                  [] OTHER -> "none"
PartType(t) == CASE t = "complex" -> "float" [] t = "complex64" -> "float32" [] t = "complex128" -> "float64" [] OTHER -> t
WiderT(t) == CASE t = "float16" -> "float32" [] t = "float32" -> "float64" [] t = "float64" -> "float128"
               [] t = "complex64" -> "complex128" [] t = "complex128" -> "complex256"
               [] t = "integer8" -> "integer16" [] t = "integer16" -> "integer32" [] t = "integer32" -> "integer64"
               [] OTHER -> "none"
NarrowerT(t) == CASE t = "float32" -> "float16" [] t = "float64" -> "float32" [] t = "float128" -> "float64"
                  [] t = "complex128" -> "complex64" [] t = "complex256" -> "complex128"
                  [] t = "integer16" -> "integer8" [] t = "integer32" -> "integer16" [] t = "integer64" -> "integer32"
                  [] OTHER -> "none"

HLOTargets == {"stablehlo", "xla_client"}
HasPrefix(s, n, p) == Len(s) >= n /\ SubSeq(s, 1, n) = p
\* the names a target language has for an IR type ({} = the language has no such type / not specified)
RECURSIVE TypeNames(_, _)
TypeNames(target, t) ==
  CASE target = "python" ->
         (CASE t = "float" -> {"float"} [] t = "complex" -> {"complex"} [] t = "integer" -> {"int"}
            [] t = "boolean" -> {"bool"} [] OTHER -> {})
    [] target = "numpy" ->
         (CASE t = "float16" -> {"numpy.float16", "numpy.half"}
            [] t = "float32" -> {"numpy.float32", "numpy.single"}
            [] t \in {"float64", "float"} -> {"numpy.float64", "numpy.double"}
            [] t = "float128" -> {"numpy.float128", "numpy.longdouble"}
            [] t = "complex64" -> {"numpy.complex64", "numpy.csingle"}
            [] t \in {"complex128", "complex"} -> {"numpy.complex128", "numpy.cdouble"}
            [] t = "complex256" -> {"numpy.complex256", "numpy.clongdouble"}
            [] t = "integer8" -> {"numpy.int8"} [] t = "integer16" -> {"numpy.int16"} [] t = "integer32" -> {"numpy.int32"}
            [] t \in {"integer64", "integer"} -> {"numpy.int64"}
            [] t = "boolean" -> {"numpy.bool_", "numpy.bool"}
            [] OTHER -> {})
    [] target = "cpp" ->
         (CASE t = "float32" -> {"float"}
            [] t \in {"float64", "float"} -> {"double"}
            [] t = "float128" -> {"long double"}
            [] t = "complex64" -> {"std::complex<float>"}
            [] t \in {"complex128", "complex"} -> {"std::complex<double>"}
            [] t = "integer8" -> {"int8_t", "std::int8_t"} [] t = "integer16" -> {"int16_t", "std::int16_t"}
            [] t = "integer32" -> {"int32_t", "std::int32_t", "int"}
            [] t \in {"integer64", "integer"} -> {"int64_t", "std::int64_t", "long", "long long"}
            [] t = "boolean" -> {"bool"}
            [] OTHER -> {})
    \* TableGen pattern: the source pattern constrains arguments by element-type class only
    [] target = "stablehlo" ->
         (IF t \in ComplexTypes THEN {"ComplexElementType"}
          ELSE IF t \in FloatTypes \cup IntTypes \cup {"boolean"} THEN {"NonComplexElementType"} ELSE {})
    \* XLA builder: every value of the graph is an XlaOp; a node of the alternative (compile-time, C++) constant
    \* context has type "alt:<T>": the C++ name of T, or T itself when T is a template type parameter
    [] target = "xla_client" ->
         (IF HasPrefix(t, 4, "alt:") THEN
            (LET u == SubSeq(t, 5, Len(t)) IN IF TypeNames("cpp", u) # {} THEN TypeNames("cpp", u) ELSE {u})
          ELSE IF t \in FloatTypes \cup ComplexTypes \cup IntTypes \cup {"boolean"} THEN {"XlaOp", "xla::XlaOp"} ELSE {})
    [] OTHER -> {}

(*************************** the Implements table **************************)
\* kinds whose name is also the name of the function in Python's math module / numpy / <cmath>
SameName1 == {"cos", "cosh", "sin", "sinh", "tan", "tanh", "exp", "expm1", "log", "log1p", "log2", "log10", "ceil", "floor", "sqrt"}
Inverse1 == {"acos", "acosh", "asin", "asinh", "atan", "atanh"}          \* numpy spells arccos ...
ArcName(k) == CASE k = "acos" -> "arccos" [] k = "acosh" -> "arccosh" [] k = "asin" -> "arcsin"
                [] k = "asinh" -> "arcsinh" [] k = "atan" -> "arctan" [] k = "atanh" -> "arctanh" [] OTHER -> k
ArithOp(k) == CASE k = "add" -> "+" [] k = "subtract" -> "-" [] k = "multiply" -> "*" [] k = "divide" -> "/" [] OTHER -> ""
BitOp(k) == CASE k = "bitwise_and" -> "&" [] k = "bitwise_or" -> "|" [] k = "bitwise_xor" -> "^"
              [] k = "bitwise_left_shift" -> "<<" [] k = "bitwise_right_shift" -> ">>" [] OTHER -> ""
RelOp(k) == CASE k = "lt" -> "<" [] k = "le" -> "<=" [] k = "gt" -> ">" [] k = "ge" -> ">=" [] k = "eq" -> "==" [] k = "ne" -> "!=" [] OTHER -> ""
NumpyRel(k) == CASE k = "lt" -> "less" [] k = "le" -> "less_equal" [] k = "gt" -> "greater" [] k = "ge" -> "greater_equal"
                 [] k = "eq" -> "equal" [] k = "ne" -> "not_equal" [] OTHER -> ""
ArithKinds == {"add", "subtract", "multiply", "divide"}
BitKinds == {"bitwise_and", "bitwise_or", "bitwise_xor", "bitwise_left_shift", "bitwise_right_shift"}
RelKinds == {"lt", "le", "gt", "ge", "eq", "ne"}

\* Kinds the spec cannot specify independently (the IR gives them no semantics one could look up, or
\* the realisation is a composite the package invented): accepted as emitted.
WildKinds(target) ==
  CASE target = "python" -> {"sign", "round", "list", "item"}
    [] target = "numpy" -> {"round", "list", "item"}
    [] target = "cpp" -> {"sign", "round", "remainder", "list", "item"}
    [] target = "stablehlo" -> {"list", "item"}
    [] target = "xla_client" -> {"round", "log2", "log10", "list", "item"}
    [] OTHER -> {}

\* Patterns that realise a node of kind k, static type t, whose operands have types ots, in target.
\* TN: the acceptable names of type t (a parameter so that MC_TargetTables can instantiate it with
\* the placeholder of the package's templates).
Impl(target, k, TN, PTN) ==
  CASE target = "python" ->
         (CASE k = "absolute" -> {Call1("abs", H(1))}
            [] k = "negative" -> {Un("-", H(1))}
            [] k = "positive" -> {Un("+", H(1)), H(1)}
            [] k \in ArithKinds -> {Bin(ArithOp(k), H(1), H(2))}
            [] k = "remainder" -> {Bin("%", H(1), H(2))}
            [] k = "floor_divide" -> {Bin("//", H(1), H(2))}
            [] k = "pow" -> {Bin("**", H(1), H(2)), Call2("math.pow", H(1), H(2)), Call2("pow", H(1), H(2))}
            [] k = "logical_and" -> {BoolOp("and", H(1), H(2))}
            [] k = "logical_or" -> {BoolOp("or", H(1), H(2))}
            [] k = "logical_xor" -> {Cmp("!=", H(1), H(2)), Bin("^", H(1), H(2))}
            [] k = "logical_not" -> {Un("not", H(1))}
            [] k = "bitwise_invert" -> {Un("~", H(1))}
            [] k \in BitKinds -> {Bin(BitOp(k), H(1), H(2))}
            [] k = "maximum" -> {Call2("max", H(1), H(2))}
            [] k = "minimum" -> {Call2("min", H(1), H(2))}
            [] k \in SameName1 \cup Inverse1 \cup {"exp2"} -> {Call1("math." \o k, H(1))}
            [] k \in {"atan2", "copysign", "hypot", "nextafter"} -> {Call2("math." \o k, H(1), H(2))}
            [] k = "truncate" -> {Call1("math.trunc", H(1))}
            [] k = "is_finite" -> {Call1("math.isfinite", H(1))}
            [] k = "conjugate" -> {MCall0("conjugate", H(1))}
            [] k = "real" -> {Attr("real", H(1))}
            [] k = "imag" -> {Attr("imag", H(1))}
            [] k = "complex" -> {Call2("complex", H(1), H(2))}
            [] k = "square" -> {Bin("*", H(1), H(1)), Bin("**", H(1), [o |-> "lit", a |-> <<>>, s |-> "int", v |-> <<<<2>>, 0, <<>>>>])}
            [] k = "select" -> {Cond(H(1), H(2), H(3))}
            [] k \in RelKinds -> {Cmp(RelOp(k), H(1), H(2))}
            [] OTHER -> None)
    [] target = "numpy" ->
         (CASE k = "absolute" -> {Call1("numpy.abs", H(1)), Call1("numpy.absolute", H(1)), Call1("abs", H(1))}
            [] k = "negative" -> {Un("-", H(1)), Call1("numpy.negative", H(1))}
            [] k = "positive" -> {Un("+", H(1)), H(1), Call1("numpy.positive", H(1))}
            [] k \in ArithKinds -> {Bin(ArithOp(k), H(1), H(2)), Call2("numpy." \o k, H(1), H(2))}
            [] k = "remainder" -> {Bin("%", H(1), H(2)), Call2("numpy.remainder", H(1), H(2)), Call2("numpy.mod", H(1), H(2))}
            [] k = "floor_divide" -> {Bin("//", H(1), H(2)), Call2("numpy.floor_divide", H(1), H(2))}
            [] k = "pow" -> {Bin("**", H(1), H(2)), Call2("numpy.power", H(1), H(2))}
            [] k = "logical_and" -> {Call2("numpy.logical_and", H(1), H(2)), BoolOp("and", H(1), H(2))}
            [] k = "logical_or" -> {Call2("numpy.logical_or", H(1), H(2)), BoolOp("or", H(1), H(2))}
            [] k = "logical_xor" -> {Call2("numpy.logical_xor", H(1), H(2))}
            [] k = "logical_not" -> {Call1("numpy.logical_not", H(1)), Un("not", H(1))}
            [] k = "bitwise_invert" -> {Un("~", H(1)), Call1("numpy.invert", H(1)), Call1("numpy.bitwise_not", H(1))}
            [] k \in BitKinds -> {Bin(BitOp(k), H(1), H(2))}
            [] k = "maximum" -> {Call2("max", H(1), H(2)), Call2("numpy.maximum", H(1), H(2))}
            [] k = "minimum" -> {Call2("min", H(1), H(2)), Call2("numpy.minimum", H(1), H(2))}
            [] k \in SameName1 \cup {"exp2", "sign", "hypot", "square", "copysign", "nextafter"} ->
                 (IF k \in {"hypot", "copysign", "nextafter"} THEN {Call2("numpy." \o k, H(1), H(2))} ELSE {Call1("numpy." \o k, H(1))})
            [] k \in Inverse1 -> {Call1("numpy." \o ArcName(k), H(1)), Call1("numpy." \o k, H(1))}
            [] k = "atan2" -> {Call2("numpy.arctan2", H(1), H(2)), Call2("numpy.atan2", H(1), H(2))}
            [] k = "truncate" -> {Call1("numpy.trunc", H(1))}
            [] k = "is_finite" -> {Call1("numpy.isfinite", H(1))}
            [] k = "conjugate" -> {MCall0("conjugate", H(1)), Call1("numpy.conj", H(1)), Call1("numpy.conjugate", H(1))}
            [] k = "real" -> {Attr("real", H(1)), Call1("numpy.real", H(1))}
            [] k = "imag" -> {Attr("imag", H(1)), Call1("numpy.imag", H(1))}
            \* make_complex is the helper the package's header defines; its definition is covered by execution
            [] k = "complex" -> {Call2("make_complex", H(1), H(2))}
            [] k = "select" -> {Call3("numpy.where", H(1), H(2), H(3)), Cond(H(1), H(2), H(3))}
            [] k \in RelKinds -> {Call2("numpy." \o NumpyRel(k), H(1), H(2)), Cmp(RelOp(k), H(1), H(2))}
            [] k \in {"upcast", "downcast"} -> {Call1(T, H(1)) : T \in TN}
            [] OTHER -> None)
    [] target = "cpp" ->
         (CASE k = "absolute" -> {Call1("std::abs", H(1)), Call1("std::fabs", H(1))}
            [] k = "negative" -> {Un("-", H(1))}
            [] k = "positive" -> {Un("+", H(1)), H(1)}
            [] k \in ArithKinds -> {Bin(ArithOp(k), H(1), H(2))}
            [] k = "pow" -> {Call2("std::pow", H(1), H(2))}
            [] k = "logical_and" -> {Bin("&&", H(1), H(2))}
            [] k = "logical_or" -> {Bin("||", H(1), H(2))}
            [] k = "logical_xor" -> {Bin("!=", H(1), H(2)), Bin("^", H(1), H(2))}
            [] k = "logical_not" -> {Un("!", H(1))}
            [] k = "bitwise_invert" -> {Un("~", H(1))}
            [] k \in BitKinds -> {Bin(BitOp(k), H(1), H(2))}
            [] k = "maximum" -> {Call2("std::max", H(1), H(2)), Call2("std::fmax", H(1), H(2))}
            [] k = "minimum" -> {Call2("std::min", H(1), H(2)), Call2("std::fmin", H(1), H(2))}
            [] k \in SameName1 \cup Inverse1 \cup {"exp2"} -> {Call1("std::" \o k, H(1))}
            [] k \in {"atan2", "copysign", "hypot", "nextafter"} -> {Call2("std::" \o k, H(1), H(2))}
            [] k = "truncate" -> {Call1("std::trunc", H(1))}
            [] k = "is_finite" -> {Call1("std::isfinite", H(1))}
            [] k = "conjugate" -> {Call1("std::conj", H(1))}
            [] k = "real" -> {MCall0("real", H(1)), Call1("std::real", H(1))}
            [] k = "imag" -> {MCall0("imag", H(1)), Call1("std::imag", H(1))}
            [] k = "complex" -> {Call2(T, H(1), H(2)) : T \in TN}
            [] k = "square" -> {Bin("*", H(1), H(1))}
            [] k = "select" -> {Cond(H(1), H(2), H(3))}
            [] k \in RelKinds -> {Bin(RelOp(k), H(1), H(2))}
            [] k \in {"upcast", "downcast"} -> {Cast(T, H(1)) : T \in TN} \cup {Call1(T, H(1)) : T \in TN}
            [] OTHER -> None)
    [] OTHER -> None

\* all kinds the table above specifies for a target (used by MC_TargetTables and by the generators)
AllKinds == {"absolute", "negative", "positive", "remainder", "floor_divide", "pow", "logical_and", "logical_or", "logical_xor",
             "logical_not", "bitwise_invert", "maximum", "minimum", "exp2", "atan2", "copysign", "hypot", "nextafter", "truncate",
             "is_finite", "conjugate", "real", "imag", "complex", "square", "select", "upcast", "downcast", "sign", "round"}
            \cup ArithKinds \cup BitKinds \cup RelKinds \cup SameName1 \cup Inverse1
SpecifiedKinds(target) == {k \in AllKinds : Impl(target, k, {"T"}, {"T"}) # None}

(*************************** values of constant expressions ****************)
\* Pi with 120 fractional bits
PiD == <<ZFromNat(<<28787, 23558, 26152, 6296, 12429, 4276, 23202, 4639, 3>>), -120>>
QNaN(f) == NAdd(InfMag(f), NPow2(f.p - 2))

\* conversion of any float pattern between formats (IEEE convertFormat: NaN -> NaN, inf -> inf, else RN)
Conv(g, f, x) ==
  IF IsNaN(g, x) THEN QNaN(f)
  ELSE IF IsInf(g, x) THEN WithSign(f, SignBit(g, x), InfMag(f))
  ELSE RNs(f, Val(g, x), SignBit(g, x))
IntToF(f, z) == RNs(f, DMk(z, 0), 0)

\* named constants of a binary format
NamedBits(f, name) ==
  CASE name = "largest" -> LargestMag(f)
    [] name = "smallest" -> MinNormalMag(f)
    [] name = "smallest_subnormal" -> NOne
    [] name = "eps" -> RN(f, <<ZFromInt(1), -(f.p - 1)>>)
    [] name = "posinf" -> PosInf(f)
    [] name = "neginf" -> NegInf(f)
    [] name = "pi" -> RN(f, PiD)
    [] name = "nan" -> QNaN(f)
    [] OTHER -> <<>>
KnownNames == {"largest", "smallest", "smallest_subnormal", "eps", "posinf", "neginf", "pi", "nan"}

\* a constant value: [ok, cls, fmt, bits, z]  cls in {"float", "int", "bool"}; fmt a format NAME
NoVal == [ok |-> FALSE, cls |-> "", fmt |-> "", bits |-> <<>>, z |-> ZZero]
FVal(fmt, bits) == [ok |-> TRUE, cls |-> "float", fmt |-> fmt, bits |-> bits, z |-> ZZero]
IVal(z) == [ok |-> TRUE, cls |-> "int", fmt |-> "", bits |-> <<>>, z |-> z]
BVal(z) == [ok |-> TRUE, cls |-> "bool", fmt |-> "", bits |-> <<>>, z |-> z]
NegVal(x) == IF ~x.ok THEN x
             ELSE IF x.cls = "float" THEN FVal(x.fmt, FNeg(FmtOf(x.fmt), x.bits))
             ELSE IF x.cls = "int" THEN IVal(ZNeg(x.z)) ELSE IVal(ZNeg(x.z))
\* value converted to float format name g
ToFmt(x, g) == IF ~x.ok THEN x
               ELSE IF x.cls = "float" THEN FVal(g, Conv(FmtOf(x.fmt), FmtOf(g), x.bits))
               ELSE FVal(g, IntToF(FmtOf(g), x.z))

\* a float value converted to an integer the way numpy.int64(x) / a C++ conversion does: truncation
FloatToInt(x) ==
  IF ~x.ok \/ x.cls # "float" THEN x
  ELSE LET f == FmtOf(x.fmt)
       IN  IF ~IsFinite(f, x.bits) THEN NoVal
           ELSE IF IsZero(f, x.bits) THEN IVal(ZZero)
           ELSE LET d == Val(f, x.bits)
                IN  IF d[2] >= 0 THEN IVal(ZShl(d[1], d[2])) ELSE IVal(ZMk(d[1][1], NShr(d[1][2], -d[2])))

\* numpy / C++ type name -> float format name ("" if not a float type name)
FloatFmtOfName(target, T) ==
  CASE target = "numpy" /\ T \in {"numpy.float16", "numpy.half"} -> "float16"
    [] target = "numpy" /\ T \in {"numpy.float32", "numpy.single"} -> "float32"
    [] target = "numpy" /\ T \in {"numpy.float64", "numpy.double"} -> "float64"
    [] target = "cpp" /\ T = "float" -> "float32"
    [] target = "cpp" /\ T = "double" -> "float64"
    [] target = "python" /\ T = "float" -> "float64"
    [] OTHER -> ""

LitFmt(s) == CASE s \in {"float", "double", "imag"} -> "float64" [] s = "float" -> "float64" [] OTHER -> ""
CppLitFmt(s) == CASE s = "double" -> "float64" [] s = "float" -> "float32" [] OTHER -> ""
IntLitTypes == {"int", "long", "long long", "unsigned", "unsigned long", "unsigned long long"}

Prefix(s, n) == IF Len(s) < n THEN "" ELSE SubSeq(s, 1, n)

\* The value a row denotes when it is a CONSTANT EXPRESSION of the language (literal, signed literal,
\* the language's named constants, a typed constructor applied to one).  From the languages' definitions.
\* C06: named constants of the HLO targets are matched by NAME (their value depends on the element type of
\* the operand they are attached to); infinities and NaN are the same in every format and stay numbers
IsNamedCls(c) == HasPrefix(c, 6, "named:")
NamedVal(name) == CASE name = "posinf" -> FVal("float64", PosInf(F64))
                    [] name = "neginf" -> FVal("float64", NegInf(F64))
                    [] name = "nan" -> FVal("float64", QNaN(F64))
                    [] OTHER -> [ok |-> TRUE, cls |-> "named:" \o name, fmt |-> "", bits |-> <<>>, z |-> ZZero]
RECURSIVE FindFrom(_, _, _)
FindFrom(s, p, i) == IF i + Len(p) - 1 > Len(s) THEN 0 ELSE IF SubSeq(s, i, i + Len(p) - 1) = p THEN i ELSE FindFrom(s, p, i + 1)
ScalarLikeOps == {"call:ScalarLike", "call:xla::ScalarLike"}

RECURSIVE RowVal(_, _, _), RowValH(_, _, _)
\* constant expressions of the HLO targets: `ScalarLike(like, e)` / `(StableHLO_ConstantLike<"e"> like)` (rows in
\* normal form: child = e, attachment in v) have the value of the C++ constant expression e;
\* `(StableHLO_ConstantLikeXxx like)`, M_PI and std::numeric_limits<T>::f() are named constants
RowValH(target, rows, i) ==
  LET r == rows[i]
      o == r.o
  IN  IF (o = "constlike" \/ o \in ScalarLikeOps) /\ Len(r.a) = 1 THEN RowValH(target, rows, r.a[1])
      ELSE IF HasPrefix(o, 10, "constlike:") /\ Len(r.a) = 0 THEN
        (LET vr == SubSeq(o, 11, Len(o))
             nm == CASE vr = "MaxFiniteValue" -> "largest" [] vr = "SmallestNormalizedValue" -> "smallest"
                     [] vr = "PosInfValue" -> "posinf" [] vr = "NegInfValue" -> "neginf" [] OTHER -> ""
         IN  IF nm = "" THEN NoVal ELSE NamedVal(nm))
      ELSE IF o = "name:M_PI" THEN NamedVal("pi")
      ELSE IF HasPrefix(o, 25, "call:std::numeric_limits<") /\ Len(r.a) = 0 THEN
        (LET q == FindFrom(o, ">::", 26)
             fn == IF q = 0 THEN "" ELSE SubSeq(o, q + 3, Len(o))
             what == CASE fn = "max" -> "largest" [] fn = "min" -> "smallest" [] fn = "epsilon" -> "eps"
                       [] fn = "denorm_min" -> "smallest_subnormal" [] fn = "infinity" -> "posinf"
                       [] fn = "quiet_NaN" -> "nan" [] OTHER -> ""
         IN  IF what = "" THEN NoVal ELSE NamedVal(what))
      ELSE IF o = "un:-" THEN (LET x == RowValH(target, rows, r.a[1]) IN IF ~x.ok \/ IsNamedCls(x.cls) THEN NoVal ELSE NegVal(x))
      ELSE IF o = "un:+" THEN RowValH(target, rows, r.a[1])
      ELSE RowVal("cpp", rows, i)

RowVal(target, rows, i) ==
  LET r == rows[i]
      o == r.o
  IN  IF target \in HLOTargets THEN RowValH(target, rows, i)
      ELSE IF o = "lit" THEN
        (IF r.s = "bool" THEN BVal(ZMk(0, LitDig(r)))
         ELSE IF r.s \in IntLitTypes THEN IVal(ZMk(0, LitDig(r)))
         ELSE IF target = "cpp" THEN (IF CppLitFmt(r.s) = "" THEN NoVal ELSE FVal(CppLitFmt(r.s), LitBits(r)))
         ELSE IF r.s = "float" THEN FVal("float64", LitBits(r)) ELSE NoVal)
      ELSE IF o = "un:-" THEN NegVal(RowVal(target, rows, r.a[1]))
      ELSE IF o = "un:+" THEN RowVal(target, rows, r.a[1])
      ELSE IF target = "python" THEN
        (CASE o = "name:math.inf" -> FVal("float64", PosInf(F64))
           [] o = "name:math.nan" -> FVal("float64", QNaN(F64))
           [] o = "name:math.pi" -> FVal("float64", RN(F64, PiD))
           [] o = "name:sys.float_info.max" -> FVal("float64", LargestMag(F64))
           [] o = "name:sys.float_info.min" -> FVal("float64", MinNormalMag(F64))
           [] o = "name:sys.float_info.epsilon" -> FVal("float64", NamedBits(F64, "eps"))
           [] o = "call:float" /\ Len(r.a) = 1 -> ToFmt(RowVal(target, rows, r.a[1]), "float64")
           [] o = "call:math.ulp" /\ Len(r.a) = 1 ->    \* ulp(0.0) is the smallest positive subnormal
                (LET x == RowVal(target, rows, r.a[1])
                 IN  IF x.ok /\ x.cls = "float" /\ IsZero(F64, x.bits) THEN FVal("float64", NOne) ELSE NoVal)
           [] OTHER -> NoVal)
      ELSE IF target = "numpy" THEN
        (CASE o = "name:numpy.inf" -> FVal("float64", PosInf(F64))
           [] o = "name:numpy.nan" -> FVal("float64", QNaN(F64))
           [] o = "name:numpy.pi" -> FVal("float64", RN(F64, PiD))
           [] Prefix(o, 5) = "call:" /\ Len(r.a) = 1 /\ FloatFmtOfName("numpy", SubSeq(o, 6, Len(o))) # "" ->
                ToFmt(RowVal(target, rows, r.a[1]), FloatFmtOfName("numpy", SubSeq(o, 6, Len(o))))
           [] o \in {"call:numpy.bool_", "call:numpy.bool"} /\ Len(r.a) = 1 -> RowVal(target, rows, r.a[1])
           [] o \in {"call:numpy.complex64", "call:numpy.complex128"} /\ Len(r.a) = 1 ->
                ToFmt(RowVal(target, rows, r.a[1]), IF o = "call:numpy.complex64" THEN "float32" ELSE "float64")
           [] o \in {"call:numpy.int8", "call:numpy.int16", "call:numpy.int32", "call:numpy.int64"} /\ Len(r.a) = 1 ->
                (LET x == RowVal(target, rows, r.a[1]) IN IF x.ok /\ x.cls = "int" THEN x ELSE FloatToInt(x))
           [] Prefix(o, 5) = "attr:" /\ rows[r.a[1]].o = "call:numpy.finfo" /\ Len(rows[r.a[1]].a) = 1 ->
                (LET tn == rows[rows[r.a[1]].a[1]].o
                     g == IF Prefix(tn, 5) = "name:" THEN FloatFmtOfName("numpy", SubSeq(tn, 6, Len(tn))) ELSE ""
                     nm == SubSeq(o, 6, Len(o))
                     what == CASE nm = "max" -> "largest" [] nm \in {"smallest_normal", "tiny"} -> "smallest"
                               [] nm = "smallest_subnormal" -> "smallest_subnormal" [] nm = "eps" -> "eps" [] OTHER -> ""
                 IN  IF g = "" \/ what = "" THEN NoVal ELSE FVal(g, NamedBits(FmtOf(g), what)))
           [] OTHER -> NoVal)
      ELSE IF target = "cpp" THEN
        (CASE o = "name:M_PI" -> FVal("float64", RN(F64, PiD))
           [] o = "name:NAN" -> FVal("float32", QNaN(F32))
           [] o = "name:INFINITY" -> FVal("float32", PosInf(F32))
           [] Prefix(o, 25) = "call:std::numeric_limits<" /\ Len(r.a) = 0 ->
                (LET rest == SubSeq(o, 26, Len(o))
                     g == CASE Prefix(rest, 7) = "float>:" -> "float32" [] Prefix(rest, 8) = "double>:" -> "float64" [] OTHER -> ""
                     fn == IF g = "float32" THEN SubSeq(rest, 9, Len(rest)) ELSE IF g = "float64" THEN SubSeq(rest, 10, Len(rest)) ELSE ""
                     what == CASE fn = "max" -> "largest" [] fn = "min" -> "smallest" [] fn = "epsilon" -> "eps"
                               [] fn = "denorm_min" -> "smallest_subnormal" [] fn = "infinity" -> "posinf"
                               [] fn = "quiet_NaN" -> "nan" [] OTHER -> ""
                 IN  IF g = "" \/ what = "" THEN NoVal ELSE FVal(g, NamedBits(FmtOf(g), what)))
           [] Prefix(o, 5) = "cast:" /\ FloatFmtOfName("cpp", SubSeq(o, 6, Len(o))) # "" ->
                ToFmt(RowVal(target, rows, r.a[1]), FloatFmtOfName("cpp", SubSeq(o, 6, Len(o))))
           [] OTHER -> NoVal)
      ELSE NoVal

\* The value a constant node denotes in a target: the stored Python object in Python; the stored value
\* converted to the node's static type in the typed targets.
\* C06: the element type of a node of the HLO targets ("alt:<T>" = type T of the alternative constant context)
ElemT(t) == IF HasPrefix(t, 4, "alt:") THEN SubSeq(t, 5, Len(t)) ELSE t
NodeValH(n) ==
  LET v == n.v
      raw == CASE v.c = "float" -> FVal(v.fmt, v.bits)
               [] v.c = "int" -> IVal(ZMk(v.neg, v.mag))
               [] v.c = "bool" -> BVal(ZMk(0, v.mag))
               [] OTHER -> NoVal
      et == ElemT(n.t)
      g == FmtNameOf(et)
  IN  IF v.c = "named" THEN NamedVal(v.name)
      ELSE IF ~raw.ok THEN NoVal
      ELSE IF g # "none" THEN (IF raw.cls \in {"float", "int"} THEN ToFmt(raw, g) ELSE NoVal)
      ELSE IF IsIntT(et) THEN (IF raw.cls \in {"int", "bool"} THEN IVal(raw.z) ELSE IF raw.cls = "float" THEN FloatToInt(raw) ELSE NoVal)
      ELSE IF et = "boolean" THEN (IF raw.cls = "bool" THEN raw ELSE NoVal)
      ELSE raw          \* a template type parameter: the stored number itself

NodeVal(target, n) ==
  LET v == n.v
      raw == CASE v.c = "float" -> FVal(v.fmt, v.bits)
               [] v.c = "int" -> IVal(ZMk(v.neg, v.mag))
               [] v.c = "bool" -> BVal(ZMk(0, v.mag))
               [] OTHER -> NoVal
      g == FmtNameOf(n.t)
  IN  IF target \in HLOTargets THEN NodeValH(n)
      ELSE IF v.c = "named" THEN
        (IF v.name \in KnownNames /\ IsFloatT(n.t) THEN FVal(g, NamedBits(FmtOf(g), v.name)) ELSE NoVal)
      ELSE IF ~raw.ok THEN NoVal
      ELSE IF target = "python" THEN (IF raw.cls = "float" THEN ToFmt(raw, "float64") ELSE raw)
      ELSE IF IsFloatT(n.t) THEN ToFmt(raw, g)
      ELSE IF IsComplexT(n.t) /\ raw.cls \in {"float", "int"} THEN ToFmt(raw, g)
      ELSE IF IsIntT(n.t) /\ raw.cls \in {"int", "bool"} THEN IVal(raw.z)
      ELSE IF IsIntT(n.t) /\ raw.cls = "float" THEN FloatToInt(raw)
      ELSE IF n.t = "boolean" /\ raw.cls = "bool" THEN raw
      ELSE NoVal

SameFloat(f, x, y) == x = y \/ (IsNaN(f, x) /\ IsNaN(f, y))
\* exact numeric equality of two constant values of possibly different classes / formats
SameNumber(x, y) ==
  IF x.cls = "float" /\ y.cls = "float" THEN
       LET f == FmtOf(x.fmt)  g == FmtOf(y.fmt)
       IN  IF IsNaN(f, x.bits) \/ IsNaN(g, y.bits) THEN IsNaN(f, x.bits) /\ IsNaN(g, y.bits)
           ELSE IF IsInf(f, x.bits) \/ IsInf(g, y.bits) THEN IsInf(f, x.bits) /\ IsInf(g, y.bits) /\ SignBit(f, x.bits) = SignBit(g, y.bits)
           ELSE SignBit(f, x.bits) = SignBit(g, y.bits) /\ DEq(Val(f, x.bits), Val(g, y.bits))
  ELSE IF x.cls = "float" THEN
       LET f == FmtOf(x.fmt) IN IsFinite(f, x.bits) /\ (IsZero(f, x.bits) => SignBit(f, x.bits) = 0) /\ DEq(Val(f, x.bits), DMk(y.z, 0))
  ELSE IF y.cls = "float" THEN
       LET g == FmtOf(y.fmt) IN IsFinite(g, y.bits) /\ (IsZero(g, y.bits) => SignBit(g, y.bits) = 0) /\ DEq(Val(g, y.bits), DMk(x.z, 0))
  ELSE x.z = y.z

\* does the constant expression value rv (from the text) denote constant node value nv?
\*   python: same class and same value (the object itself is printed)
\*   numpy : same class; floats in the node's format, bit for bit
\*   cpp   : the same number (the type the text computes in is the typing clauses' business)
\*   stablehlo / xla_client: a named constant by name; otherwise the text's number, converted to the element
\*           format of the node (ConstantLike / ScalarLike convert to the element type of their operand), is the
\*           node's value
ConstDenotesH(nv, rv) ==
  IF IsNamedCls(nv.cls) \/ IsNamedCls(rv.cls) THEN nv.cls = rv.cls
  ELSE IF nv.cls = "float" THEN rv.cls \in {"float", "int"} /\ SameFloat(FmtOf(nv.fmt), nv.bits, ToFmt(rv, nv.fmt).bits)
  ELSE IF nv.cls = "bool" THEN rv.cls = "bool" /\ nv.z = rv.z
  ELSE rv.cls # "bool" /\ SameNumber(nv, rv)
ConstDenotes(target, nv, rv) ==
  /\ nv.ok /\ rv.ok
  /\ IF target \in HLOTargets THEN ConstDenotesH(nv, rv)
     ELSE IF target = "cpp" THEN (nv.cls = "bool") = (rv.cls = "bool") /\ SameNumber(nv, rv)
     ELSE /\ nv.cls = rv.cls
          /\ IF nv.cls = "float" THEN nv.fmt = rv.fmt /\ SameFloat(FmtOf(nv.fmt), nv.bits, rv.bits) ELSE nv.z = rv.z
\* same number, wrong class / format
ConstNumberOnly(nv, rv) == nv.ok /\ rv.ok /\ ~IsNamedCls(nv.cls) /\ ~IsNamedCls(rv.cls) /\ SameNumber(nv, rv)

(*************************** decimal literals ******************************)
RECURSIVE NPow10(_)
NPow10(k) == IF k = 0 THEN NOne ELSE NMul(<<10>>, NPow10(k - 1))
\* bits (format f, non-negative) is the correctly rounded image of dig * 10^e10
DecIsRN(f, dig, e10, bits) ==
  IF dig = <<>> THEN bits = <<>>
  ELSE LET num == IF e10 >= 0 THEN NMul(dig, NPow10(e10)) ELSE dig
           den == IF e10 >= 0 THEN NOne ELSE NPow10(-e10)
           \* compare num/den with a dyadic m * 2^q  (m natural): sign of num/den - m*2^q
           cmpD(m, q) == IF q >= 0 THEN NCmp(num, NMul(den, NShl(m, q))) ELSE NCmp(NShl(num, -q), NMul(den, m))
           mag == Mag(f, bits)
       IN  IF SignBit(f, bits) = 1 \/ IsNaN(f, bits) THEN FALSE
           ELSE LET \* midpoints below and above as (2*mag -+ 1) half-quanta; use the uniform lattice: value of
                    \* magnitude pattern g is Sig*2^Quantum; the midpoint between g and g+1 is (2*Sig_g+1)*2^(Quantum_g-1)
                    lo == IF mag = <<>> THEN <<>> ELSE NSub(mag, NOne)
                    sigL == Sig(f, lo)   qL == Quantum(f, lo)
                    aboveLo == mag = <<>> \/ LET c == cmpD(NAdd(NShl(sigL, 1), NOne), qL - 1)
                                             IN  c > 0 \/ (c = 0 /\ ~NIsOdd(mag))
                IN  IF IsInf(f, bits) THEN cmpD(NAdd(NShl(Sig(f, LargestMag(f)), 1), NOne), Quantum(f, LargestMag(f)) - 1) >= 0
                    ELSE LET sig == Sig(f, mag)  q == Quantum(f, mag)
                             c2 == cmpD(NAdd(NShl(sig, 1), NOne), q - 1)
                             belowHi == c2 < 0 \/ (c2 = 0 /\ ~NIsOdd(mag))
                         IN  aboveLo /\ belowHi

LitConvOk(target, r) ==
  IF r.o # "lit" THEN TRUE
  ELSE IF r.s \in {"float", "double", "imag"} /\ ~(target = "cpp" /\ r.s = "float") THEN DecIsRN(F64, LitDig(r), LitE10(r), LitBits(r))
  ELSE IF target = "cpp" /\ r.s = "float" THEN DecIsRN(F32, LitDig(r), LitE10(r), LitBits(r))
  ELSE TRUE

(*************************** pattern binding *******************************)
\* Bind(rows, p, i): structural match of pattern p with row i; the holes' bindings as a sequence of
\* <<hole number, row>>; <<<<0, 0>>>> when the pattern does not fit.
NoBind == <<<<0, 0>>>>
RECURSIVE Bind(_, _, _), BindArgs(_, _, _, _, _)
Bind(rows, p, i) ==
  IF p.o = "hole" THEN <<<<HoleIdx(p.s), i>>>>
  ELSE LET r == rows[i]
       IN  IF p.o # r.o \/ Len(p.a) # Len(r.a) THEN NoBind
           ELSE IF p.o = "lit" THEN (IF p.s = r.s /\ p.v[1] = LitDig(r) /\ p.v[2] = LitE10(r) THEN <<>> ELSE NoBind)
           ELSE IF p.o = "var" THEN (IF p.s = r.s THEN <<>> ELSE NoBind)
           ELSE BindArgs(rows, p, r, 1, <<>>)
BindArgs(rows, p, r, j, acc) ==
  IF j > Len(p.a) THEN acc
  ELSE LET b == Bind(rows, p.a[j], r.a[j])
       IN  IF b = NoBind THEN NoBind ELSE BindArgs(rows, p, r, j + 1, acc \o b)

\* node n fits binding b when each hole's row may denote the operand at the hole's position
FitsExact(n, b, ds) == \A q \in 1..Len(b) : b[q][1] <= Len(n.a) /\ n.a[b[q][1]] \in ds[b[q][2]]
\* ... when variable rows are allowed to denote anything
FitsRelaxed(n, b, ds, rows) ==
  \A q \in 1..Len(b) : b[q][1] <= Len(n.a) /\ (rows[b[q][2]].o = "var" \/ n.a[b[q][1]] \in ds[b[q][2]])
\* ... under some permutation of the operand positions
Perms(k) == {f \in [1..k -> 1..k] : \A x, y \in 1..k : f[x] = f[y] => x = y}
FitsPermuted(n, b, ds) ==
  \E f \in Perms(Len(n.a)) : \A q \in 1..Len(b) : b[q][1] <= Len(n.a) /\ n.a[f[b[q][1]]] \in ds[b[q][2]]

(*************************** the machine ***********************************)
ParamNames(prog) == {prog.params[j].name : j \in 1..Len(prog.params)}
AssignIdx(prog, v) == {j \in 1..Len(prog.stmts) : prog.stmts[j].op = "assign" /\ prog.stmts[j].var = v}
MinOf(S) == CHOOSE x \in S : \A y \in S : x <= y
\* symbol node of a parameter name ({} if the graph does not use the argument)
ParamNodes(nodes, name) == {m \in 1..Len(nodes) : nodes[m].k = "symbol" /\ nodes[m].n = name}
\* "denotes anything" (after a reported failure): all node ids and the non-id 0, so that it differs from every real denotation
Top(nodes) == 0..Len(nodes)
Fail(clause, i, what) == <<clause, i, what>>
ConstNodes(nodes) == {m \in 1..Len(nodes) : nodes[m].k = "constant"}

\* Everything that does not change while a program runs, computed ONCE per program:
\*   defs    variable -> row of its first assignment        nvals  value of each constant node
\*   topops  per node, the top operators of its patterns    transp nodes realised by nothing (bare hole)
RECURSIVE DefMap(_, _, _)
DefMap(prog, j, acc) ==
  IF j > Len(prog.stmts) THEN acc
  ELSE LET s == prog.stmts[j]
       IN  DefMap(prog, j + 1, IF s.op # "assign" THEN acc
                                ELSE IF s.var \in DOMAIN acc THEN [acc EXCEPT ![s.var] = Append(@, s.t)]
                                ELSE acc @@ (s.var :> <<s.t>>))
RECURSIVE NodeVals(_, _, _, _)
NodeVals(target, nodes, m, acc) ==
  IF m > Len(nodes) THEN acc
  ELSE NodeVals(target, nodes, m + 1, Append(acc, IF nodes[m].k = "constant" THEN NodeVal(target, nodes[m]) ELSE NoVal))
RECURSIVE TopOps(_, _, _)
TopOps(impl, m, acc) == IF m > Len(impl) THEN acc ELSE TopOps(impl, m + 1, Append(acc, {p.o : p \in impl[m]}))
Context(target, nodes, impl, prog) ==
  LET tops == TopOps(impl, 1, <<>>)
  IN  [target |-> target, nodes |-> nodes, impl |-> impl, prog |-> prog,
       defs |-> DefMap(prog, 1, <<>>),
       pnames |-> ParamNames(prog),
       nvals |-> NodeVals(target, nodes, 1, <<>>),
       consts |-> ConstNodes(nodes),
       topops |-> tops,
       transp |-> {m \in 1..Len(nodes) : "hole" \in tops[m] /\ Len(nodes[m].a) = 1},
       opnodes |-> {m \in 1..Len(nodes) : nodes[m].k \notin {"symbol", "constant"}}]
\* the assignment of v that reaches row i: the last one whose right-hand side ends before i (0: none)
RECURSIVE LastBelow(_, _, _)
LastBelow(ts, i, j) == IF j = 0 THEN 0 ELSE IF ts[j] < i THEN ts[j] ELSE LastBelow(ts, i, j - 1)
DefRow(cx, v, i) == IF v \in DOMAIN cx.defs THEN LastBelow(cx.defs[v], i, Len(cx.defs[v])) ELSE 0

\* closure of a candidate set under kinds realised by NOTHING (pattern = the bare hole, e.g. unary plus in C++)
RECURSIVE CloseTransparent(_, _)
CloseTransparent(cx, S) ==
  IF cx.transp = {} THEN S
  ELSE LET more == {m \in cx.transp : m \notin S /\ cx.nodes[m].a[1] \in S}
       IN  IF more = {} THEN S ELSE CloseTransparent(cx, S \cup more)

\* same number as some constant node, but wrong class / format?
ConstFailure(cx, t) ==
  LET rv == RowVal(cx.target, cx.prog.rows, t)
      sameNumber == {m \in cx.consts : ConstNumberOnly(cx.nvals[m], rv)}
  IN  IF sameNumber # {} THEN "constant_type" ELSE "constant_value"

\* constant expressions with an imaginary literal (Python: (1.5-2j), numpy.complex64((1.5-2j))) are not
\* interpreted by the spec: accepted as denoting any constant node of complex type (leniency)
RECURSIVE CplxShape(_, _), HasImag(_, _)
CplxCtors == {"call:complex", "call:numpy.complex64", "call:numpy.complex128", "call:std::complex<float>", "call:std::complex<double>",
              "call:numpy.int8", "call:numpy.int16", "call:numpy.int32", "call:numpy.int64"}
CplxShape(rows, i) ==
  LET r == rows[i]
  IN  \/ r.o = "lit"
      \/ r.o \in {"un:-", "un:+", "bin:+", "bin:-", "cast:float", "cast:double"} \cup CplxCtors
           /\ Len(r.a) >= 1 /\ \A j \in 1..Len(r.a) : CplxShape(rows, r.a[j])
HasImag(rows, i) == (rows[i].o = "lit" /\ rows[i].s = "imag") \/ \E j \in 1..Len(rows[i].a) : HasImag(rows, rows[i].a[j])
CplxConst(rows, i) == /\ (rows[i].o # "lit" \/ rows[i].s = "imag") /\ CplxShape(rows, i)
                      /\ (HasImag(rows, i) \/ rows[i].o \in {"call:std::complex<float>", "call:std::complex<double>"})

\* Denotation d of row i and the PENDING failures f of its sub-tree.  Failures stay pending until the
\* row is known to stand at an operand position (hole) of a matched parent or to be a whole statement
\* term: rows in the interior of a matched multi-level pattern, and the literal inside a typed
\* constructor, denote nothing by themselves and their failures are dropped.
DenRow(cx, st, i) ==
  LET rows == cx.prog.rows
      nodes == cx.nodes
      impl == cx.impl
      r == rows[i]
      ds == st.ds
      pf == st.pf
  IN  IF r.o = "var" THEN
        (IF r.s \in cx.pnames THEN
            [d |-> CloseTransparent(cx, ParamNodes(nodes, r.s)), f |-> {}]
         ELSE LET d == DefRow(cx, r.s, i)
              IN  IF d = 0 THEN [d |-> Top(nodes), f |-> {Fail("def_before_use", i, r.s)}]
                  ELSE [d |-> ds[d], f |-> {}])
      ELSE
        LET rv == RowVal(cx.target, rows, i)
            \* constant nodes whose stored value the driver could not encode (long double, alt-context ...) are not judged
            consts == IF rv.ok THEN {m \in cx.consts : ConstDenotes(cx.target, cx.nvals[m], rv) \/ nodes[m].v.c = "unsupported"} ELSE {}
            cands == {m \in cx.opnodes : r.o \in cx.topops[m]}
            fits(m, p) == p.o # "hole" /\ LET b == Bind(rows, p, i) IN b # NoBind /\ b # <<>> /\ FitsExact(nodes[m], b, ds)
            ops == {m \in cands : \E p \in impl[m] : fits(m, p)}
            \* pending failures confirmed by matching node m through pattern p: those of the rows bound to holes
            pend(m, p) == LET b == Bind(rows, p, i) IN UNION {pf[b[q][2]] : q \in 1..Len(b)}
            best(m) == LET ps == {p \in impl[m] : fits(m, p)}
                       IN  CHOOSE p \in ps : \A q \in ps : Cardinality(pend(m, p)) <= Cardinality(pend(m, q))
            \* T(p) with p a parameter and T the name of p's own declared type is the argument itself (identity cast)
            argcast == IF Len(r.a) = 1 /\ rows[r.a[1]].o = "var" /\ rows[r.a[1]].s \in cx.pnames /\ Prefix(r.o, 5) = "call:"
                       THEN {m \in ParamNodes(nodes, rows[r.a[1]].s) : SubSeq(r.o, 6, Len(r.o)) \in TypeNames(cx.target, nodes[m].t)}
                       ELSE {}
        IN  IF argcast # {} THEN [d |-> CloseTransparent(cx, argcast \cup ops), f |-> {}]
            ELSE IF consts # {} THEN [d |-> CloseTransparent(cx, consts \cup ops), f |-> {}]
            ELSE IF CplxConst(rows, i) /\ ({m \in cx.consts : IsComplexT(nodes[m].t) \/ nodes[m].v.c = "unsupported"} \cup {m \in ops : pend(m, best(m)) = {}}) # {} THEN
              [d |-> CloseTransparent(cx, {m \in cx.consts : IsComplexT(nodes[m].t) \/ nodes[m].v.c = "unsupported"} \cup {m \in ops : pend(m, best(m)) = {}}), f |-> {}]
            \* (a constant expression is matched as an operation only when that confirms no failure of its parts:
            \*  `-(1.5)` whose literal denotes nothing is a failed constant, not the negation of anything)
            ELSE IF ops # {} /\ (~rv.ok \/ \E m \in ops : pend(m, best(m)) = {}) THEN
              \* several nodes may fit when failed sub-terms denote anything: keep those that confirm fewest failures
              LET least == CHOOSE m \in ops : \A m2 \in ops : Cardinality(pend(m, best(m))) <= Cardinality(pend(m2, best(m2)))
                  k == Cardinality(pend(least, best(least)))
                  keep == {m \in ops : Cardinality(pend(m, best(m))) = k}
              IN  [d |-> CloseTransparent(cx, keep), f |-> pend(least, best(least))]
            ELSE IF rv.ok THEN
              [d |-> Top(nodes), f |-> {Fail(ConstFailure(cx, i), i, r.o)}]
            ELSE
              LET cand(F(_, _)) == {m \in cands : \E p \in impl[m] : p.o # "hole" /\ LET b == Bind(rows, p, i) IN b # NoBind /\ b # <<>> /\ F(nodes[m], b)}
                  permuted == cand(LAMBDA n, b : FitsPermuted(n, b, ds))
                  relaxed == cand(LAMBDA n, b : FitsRelaxed(n, b, ds, rows))
                  below == UNION {pf[r.a[j]] : j \in 1..Len(r.a)}
              IN  IF \E x \in below : x[1] = "def_before_use" THEN [d |-> Top(nodes), f |-> below]   \* an undefined name: the enclosing term is not judged again
                  ELSE IF permuted # {} THEN [d |-> permuted, f |-> below \cup {Fail("operand_order", i, r.o)}]
                  ELSE IF relaxed # {} THEN
                    \* name the variable(s) standing where another node is required: those of the candidate node
                    \* that needs the fewest variables to change
                    LET pat(m) == CHOOSE q \in impl[m] : q.o # "hole" /\ LET b == Bind(rows, q, i) IN b # NoBind /\ b # <<>> /\ FitsRelaxed(nodes[m], b, ds, rows)
                        wrong(m) == LET b == Bind(rows, pat(m), i)
                                    IN  {rows[b[q][2]].s : q \in {qq \in 1..Len(b) : rows[b[qq][2]].o = "var" /\ nodes[m].a[b[qq][1]] \notin ds[b[qq][2]]}}
                        m0 == CHOOSE m \in relaxed : \A m2 \in relaxed : Cardinality(wrong(m)) <= Cardinality(wrong(m2))
                    IN  [d |-> relaxed, f |-> below \cup {Fail("distinct_share", i, v) : v \in wrong(m0)}]
                  ELSE [d |-> Top(nodes), f |-> below \cup {Fail("operator", i, r.o)}]

RECURSIVE DenAll(_, _, _)
DenAll(cx, st, i) ==
  IF i > Len(cx.prog.rows) THEN st
  ELSE LET x == DenRow(cx, st, i)
       IN  DenAll(cx, [ds |-> Append(st.ds, x.d), pf |-> Append(st.pf, x.f)], i + 1)

\* text-level discipline
SingleAssignmentFails(prog) ==
  {Fail("single_assignment", 0, prog.stmts[j].var) : j \in {jj \in 1..Len(prog.stmts) :
       LET s == prog.stmts[jj] IN s.op = "assign" /\ (s.var \in ParamNames(prog) \/ \E k \in 1..(jj - 1) : prog.stmts[k].op = "assign" /\ prog.stmts[k].var = s.var)}}

\* Verdict of the machine on a whole program: [fails |-> set of <<clause, row, what>>, ds |-> the
\* denotation of every row].  root: the node the program must return.
\* (ProgramVerdict: the statements judged over the denotations st of all rows)
ProgramVerdict(cx, st, root) ==
  LET target == cx.target
      nodes == cx.nodes
      prog == cx.prog
      ds == st.ds
      stmtFails(j) ==
        LET s == prog.stmts[j]
        IN  CASE s.op = "assign" ->
                   st.pf[s.t]
                   \cup (IF s.ty # "" /\ ds[s.t] # {} /\ ds[s.t] # Top(nodes)
                            /\ \A m \in ds[s.t] : TypeNames(target, nodes[m].t) # {} /\ s.ty \notin TypeNames(target, nodes[m].t)
                         THEN {Fail("declared_type", s.t, s.var)} ELSE {})
              [] s.op = "return" ->
                   st.pf[s.t] \cup (IF root \notin ds[s.t] THEN {Fail("return_root", s.t, "return")} ELSE {})
              [] s.op = "cast" ->
                   (IF s.var \notin ParamNames(prog) THEN {Fail("single_assignment", 0, s.var)}
                    ELSE IF \E m \in ParamNodes(nodes, s.var) : TypeNames(target, nodes[m].t) # {} /\ s.ty \notin TypeNames(target, nodes[m].t)
                         THEN {Fail("declared_type", 0, s.var)} ELSE {})
              [] s.op = "assert" ->
                   (LET defined == s.var \in ParamNames(prog) \/ \E k \in 1..(j - 1) : prog.stmts[k].op = "assign" /\ prog.stmts[k].var = s.var
                        den == IF s.var \in ParamNames(prog) THEN ParamNodes(nodes, s.var)
                               ELSE IF DefRow(cx, s.var, Len(prog.rows) + 1) = 0 THEN {} ELSE ds[DefRow(cx, s.var, Len(prog.rows) + 1)]
                    IN  IF ~defined THEN {Fail("assert_target", 0, s.var)}
                        ELSE IF den # {} /\ den # Top(nodes) /\ \A m \in den : TypeNames(target, nodes[m].t) # {} /\ s.ty \notin TypeNames(target, nodes[m].t)
                             THEN {Fail("assert_target", 0, s.var)} ELSE {})
              [] OTHER -> {}
      nret == Cardinality({j \in 1..Len(prog.stmts) : prog.stmts[j].op = "return"})
  IN  [ds |-> ds,
       fails |-> SingleAssignmentFails(prog)
                 \cup UNION {stmtFails(j) : j \in 1..Len(prog.stmts)}
                 \cup (IF nret # 1 \/ prog.stmts[Len(prog.stmts)].op # "return" THEN {Fail("return_root", 0, "no single final return")} ELSE {})]
RunProgram(target, nodes, root, impl, prog) ==
  LET cx == Context(target, nodes, impl, prog)
  IN  ProgramVerdict(cx, DenAll(cx, [ds |-> <<>>, pf |-> <<>>], 1), root)

\* impl table of a graph for one of the three executable targets: wild-carded kinds use the
\* pattern handed in (the package's own template, parsed), everything else the table above
RECURSIVE BuildImpl(_, _, _, _, _)
BuildImpl(target, nodes, wild, m, acc) ==
  IF m > Len(nodes) THEN acc
  ELSE LET n == nodes[m]
           tn == TypeNames(target, n.t)
           own == IF n.k \in {"symbol", "constant"} THEN {} ELSE Impl(target, n.k, tn, tn)
           w == IF n.k \in WildKinds(target) /\ n.k \in DOMAIN wild THEN {wild[n.k]} ELSE {}
       IN  BuildImpl(target, nodes, wild, m + 1, Append(acc, IF n.k \in WildKinds(target) THEN w ELSE own))

(*************************** C++ typing of the text ************************)
\* The type in which C++ evaluates a row (usual arithmetic conversions, literal types, <cmath>
\* overloads); "?" = not modelled.
CppFloatRank(t) == CASE t = "long double" -> 3 [] t = "double" -> 2 [] t = "float" -> 1 [] OTHER -> 0
CppIsInt(t) == t \in {"int", "long", "long long", "bool", "int8_t", "int16_t", "int32_t", "int64_t", "unsigned", "unsigned long",
                      "unsigned long long", "std::int8_t", "std::int16_t", "std::int32_t", "std::int64_t"}
CppPromote(t) == IF t \in {"bool", "int8_t", "int16_t", "int32_t", "std::int8_t", "std::int16_t", "std::int32_t"} THEN "int"
                 ELSE IF t \in {"int64_t", "std::int64_t", "long long"} THEN "long" ELSE t
\* one spelling per type (LP64)
CppCanon(t) == IF t \in {"int32_t", "std::int32_t"} THEN "int" ELSE IF t \in {"int64_t", "std::int64_t", "long long"} THEN "long" ELSE t
CppIsComplex(t) == Prefix(t, 13) = "std::complex<"
CppPart(t) == IF CppIsComplex(t) THEN SubSeq(t, 14, Len(t) - 1) ELSE t
CppUAC(a, b) ==
  IF a = "?" \/ b = "?" THEN "?"
  ELSE IF CppIsComplex(a) \/ CppIsComplex(b) THEN
         (IF a = b THEN a ELSE IF CppIsComplex(a) /\ CppPart(a) = b THEN a ELSE IF CppIsComplex(b) /\ CppPart(b) = a THEN b ELSE "ill-formed")
  ELSE IF CppFloatRank(a) > 0 \/ CppFloatRank(b) > 0 THEN (IF CppFloatRank(a) >= CppFloatRank(b) THEN a ELSE b)
  ELSE IF CppIsInt(a) /\ CppIsInt(b) THEN (IF "long" \in {CppPromote(a), CppPromote(b)} THEN "long" ELSE CppPromote(a))
  ELSE "?"
CppMath1 == {"std::" \o k : k \in SameName1 \cup Inverse1 \cup {"exp2", "trunc", "round", "fabs"}}
CppMath2 == {"std::atan2", "std::copysign", "std::hypot", "std::nextafter", "std::fmax", "std::fmin", "std::pow", "std::fmod", "std::remainder"}
VarType(prog, v) ==
  LET ps == {j \in 1..Len(prog.params) : prog.params[j].name = v}
  IN  IF ps # {} THEN prog.params[CHOOSE j \in ps : TRUE].ty
      ELSE IF AssignIdx(prog, v) = {} THEN "?" ELSE prog.stmts[MinOf(AssignIdx(prog, v))].ty

CppRowType(prog, ct, i) ==
  LET r == prog.rows[i]
      o == r.o
      c(j) == ct[r.a[j]]
      callee == IF Prefix(o, 5) = "call:" THEN SubSeq(o, 6, Len(o)) ELSE ""
  IN  CASE o = "var" -> CppCanon(VarType(prog, r.s))
        [] o = "lit" -> CppCanon(r.s)
        [] o = "name:M_PI" -> "double"
        [] o \in {"name:NAN", "name:INFINITY"} -> "float"
        [] o \in {"un:-", "un:+", "un:~"} -> (IF CppIsInt(c(1)) THEN CppPromote(c(1)) ELSE c(1))
        [] o = "un:!" -> "bool"
        [] o \in {"bin:+", "bin:-", "bin:*", "bin:/", "bin:%"} -> CppUAC(c(1), c(2))
        [] o \in {"bin:<", "bin:<=", "bin:>", "bin:>=", "bin:==", "bin:!=", "bin:&&", "bin:||"} -> "bool"
        [] o \in {"bin:&", "bin:|", "bin:^"} -> CppUAC(c(1), c(2))
        [] o \in {"bin:<<", "bin:>>"} -> CppPromote(c(1))
        [] o = "cond" -> (IF c(2) = c(3) THEN c(2)
                          ELSE IF CppIsComplex(c(2)) /\ CppIsComplex(c(3)) THEN (IF CppFloatRank(CppPart(c(2))) >= CppFloatRank(CppPart(c(3))) THEN c(2) ELSE c(3))
                          ELSE IF CppIsComplex(c(2)) /\ ~CppIsComplex(c(3)) THEN (IF c(3) = "?" THEN "?" ELSE c(2))
                          ELSE IF CppIsComplex(c(3)) /\ ~CppIsComplex(c(2)) THEN (IF c(2) = "?" THEN "?" ELSE c(3))
                          ELSE CppUAC(c(2), c(3)))
        [] Prefix(o, 5) = "cast:" -> CppCanon(SubSeq(o, 6, Len(o)))
        [] o \in {"mcall:real", "mcall:imag"} /\ Len(r.a) = 1 -> (IF CppIsComplex(c(1)) THEN CppPart(c(1)) ELSE "?")
        [] callee \in {"std::real", "std::imag"} /\ Len(r.a) = 1 -> (IF CppIsComplex(c(1)) THEN CppPart(c(1)) ELSE "?")
        [] callee = "std::abs" /\ Len(r.a) = 1 -> (IF CppIsComplex(c(1)) THEN CppPart(c(1)) ELSE IF CppIsInt(c(1)) THEN CppPromote(c(1)) ELSE c(1))
        [] callee \in CppMath1 /\ Len(r.a) = 1 -> (IF CppIsInt(c(1)) THEN "double" ELSE c(1))
        [] callee \in CppMath2 /\ Len(r.a) = 2 ->
             (IF CppIsComplex(c(1)) \/ CppIsComplex(c(2)) THEN "?"
              ELSE CppUAC(IF CppIsInt(c(1)) THEN "double" ELSE c(1), IF CppIsInt(c(2)) THEN "double" ELSE c(2)))
        [] callee \in {"std::max", "std::min"} /\ Len(r.a) = 2 -> (IF c(1) = c(2) THEN c(1) ELSE IF "?" \in {c(1), c(2)} THEN "?" ELSE "ill-formed")
        [] callee = "std::isfinite" -> "bool"
        [] callee = "std::conj" /\ Len(r.a) = 1 -> c(1)
        [] Prefix(callee, 13) = "std::complex<" -> callee
        [] Prefix(callee, 20) = "std::numeric_limits<" ->
             (LET rest == SubSeq(callee, 21, Len(callee))
              IN  IF Prefix(rest, 7) = "float>:" THEN "float" ELSE IF Prefix(rest, 8) = "double>:" THEN "double" ELSE "?")
        [] OTHER -> "?"
RECURSIVE CppTypes(_, _, _)
CppTypes(prog, ct, i) == IF i > Len(prog.rows) THEN ct ELSE CppTypes(prog, Append(ct, CppRowType(prog, ct, i)), i + 1)

\* typing clause of the C++ target: an operation (or inline constant) that denotes node n must be
\* evaluated in n's type - a `float` node evaluated in `double` is not the graph any more.
CppTypingFails(nodes, prog, ds) ==
  LET ct == CppTypes(prog, <<>>, 1)
      names(m) == {CppCanon(x) : x \in TypeNames("cpp", nodes[m].t)}
      isConst(i) == RowVal("cpp", prog.rows, i).ok
      \* a constant expression of integer / narrower floating type, or the real part type of a complex node,
      \* is converted exactly where it is used
      harmless(i, m) == isConst(i) /\ (\/ CppIsInt(ct[i])
                                       \/ \E x \in names(m) : CppFloatRank(ct[i]) > 0 /\ CppFloatRank(ct[i]) < CppFloatRank(x))
      judged(i) == /\ prog.rows[i].o # "var" /\ ds[i] # {} /\ ds[i] # Top(nodes) /\ ct[i] # "?"
                   /\ \A m \in ds[i] : nodes[m].v.c # "unsupported"
      \* the text denotes an OPERATION node of another type ...
      \* (integer-typed nodes are not judged: their typing is C08's subject)
      opbad(i) == \E m \in ds[i] : nodes[m].k \notin {"constant", "symbol"} /\ ~IsIntT(nodes[m].t) /\ names(m) # {} /\ ct[i] \notin names(m)
      \* ... or only constant nodes, each of another type, and the conversion is not exact
      constbad(i) == /\ \A m \in ds[i] : nodes[m].k = "constant"
                     /\ \A m \in ds[i] : names(m) # {} /\ ~IsIntT(nodes[m].t) /\ ct[i] \notin names(m) /\ ~harmless(i, m)
      \* sub-terms of a constant expression (the literal inside a cast / a constructor) are not terms of their own
      interior == UNION {{prog.rows[i].a[j] : j \in 1..Len(prog.rows[i].a)} : i \in {ii \in 1..Len(prog.rows) : isConst(ii) \/ CplxConst(prog.rows, ii)}}
      bad(i) == judged(i) /\ i \notin interior /\ (opbad(i) \/ constbad(i))
      \* a literal that initialises a variable of the node's type is converted to it: only inline uses count
      inits == {prog.stmts[j].t : j \in {jj \in 1..Len(prog.stmts) : prog.stmts[jj].op = "assign"}}
      neginits == {prog.rows[t].a[1] : t \in {tt \in inits : prog.rows[tt].o = "un:-"}}
      tyOf(i) == nodes[IF opbad(i) THEN CHOOSE m \in ds[i] : nodes[m].k \notin {"constant", "symbol"} /\ ct[i] \notin names(m)
                       ELSE CHOOSE m \in ds[i] : TRUE].t
  IN  {Fail(IF ct[i] = "ill-formed" THEN "ill_formed" ELSE IF constbad(i) THEN "constant_type" ELSE "computed_type",
            i, tyOf(i) \o " as " \o ct[i])
         : i \in {ii \in 1..Len(prog.rows) : bad(ii) /\ ~(ii \in inits \cup neginits /\ RowVal("cpp", prog.rows, ii).ok)}}
=============================================================================
