\* all connected DAGs with <= 4 nodes x all force_ref subsets, unique reference names
SPECIFICATION Spec
CONSTANTS
  MaxNodes = 4
  Alias = FALSE
INVARIANT Sound
CHECK_DEADLOCK FALSE
