----------------------------- MODULE MC_Rounding ----------------------------
(***************************************************************************)
(* U1 (MC_Rounding.cfg): exhaustive small-scope check of the oracle and of *)
(* the design on the toy format T4 = [p = 4, emax = 3, w = 7] (3 exponent  *)
(* bits: 112 finite patterns, subnormals, quantum 2^-5 .. 2^0).            *)
(*  "val" states: every sign, every mantissa 1 .. 2^(p+3)-1 (so every tie, *)
(*    near-tie and carry at 1, 2, 3 extra bits) and every exponent         *)
(*    ExpLo .. ExpHi (from far below half the smallest subnormal to beyond *)
(*    the overflow threshold):                                             *)
(*      RN is nearest, bracketed by NextDown/NextUp, ties go to even, RN   *)
(*      is monotone and odd-symmetric, its overflow/zero sets are exactly  *)
(*      the thresholds the clauses use, RNPrec is a nearest p-bit rounding,*)
(*      the clause set is satisfiable (RN itself passes), and the          *)
(*      transcribed two-step algorithm (CodeM2F) passes every clause with  *)
(*      and without flushing; the values where CodeM2F is not RN (double   *)
(*      rounding in the subnormal range) are printed as <<"DR", ...>>.     *)
(*  "pair" states: every ordered pair (a <= PairMax, b) of finite T4       *)
(*    patterns (PairMax = 63: a >= 0, using the sign symmetry, for the     *)
(*    quick tier; 127: all), every backend                                 *)
(*    function: the ideal backend (RN of the exact value) passes BEFails   *)
(*    for every flush mode; a backend that rounds first to p + xtra bits   *)
(*    can only fail "backend_double_rounding", one that flushes outputs    *)
(*    can only fail "backend_subnormal_flushed" (clause classification is  *)
(*    sound), and both failures do occur (witness counters are printed).   *)
(* ASSUME: RN of every representable value is that value.                  *)
(*                                                                         *)
(* U2 (MC_Rounding_shapes.cfg): enumeration of the discrete shapes the     *)
(* driver concretises - see Shapes below.                                  *)
(***************************************************************************)
EXTENDS Rounding, TLC

T4 == [p |-> 4, emax |-> 3, w |-> 7]
CONSTANTS ManBits, ExpLo, ExpHi, What, PairMax
MC_ExpLo == -15

VARIABLES kind, x, y, z, ph
vars == <<kind, x, y, z, ph>>

F == T4
Pats == 0..(Pow2(F.w) - 1)

Init == /\ ph = 0 /\ z = 0 /\ y = 0
        /\ \/ What = "u1" /\ kind = "val" /\ x \in ExpLo..ExpHi
           \/ What = "u1" /\ kind = "pair" /\ x \in 0..PairMax
           \/ What = "shapes" /\ kind = "m2f" /\ x \in {"float16", "float32", "float64"}
           \/ What = "shapes" /\ kind = "be" /\ x \in {"float16", "float32", "float64"}

(*************************** U2: shapes ************************************)
\* conversion shapes: n = mantissa bits; region = where the leading bit lies;
\* kind of the discarded tail relative to the bits the target lattice keeps
\* at that binade; par = parity of the last kept bit; the driver draws the
\* remaining bits.  Edge shapes are fully determined by (fmt, n, sign).
NClass(f) == {f.p, f.p + 1, f.p + 2, 2 * f.p, 10 * f.p}
Regions == {"emin", "emin1", "mid", "emax1", "emax", "sub_hi", "sub_mid", "sub_lo"}
Tails == {"exact", "tie", "tie_m", "tie_p", "allones", "rand"}
Edges == {"ovf", "ovf_m", "ovf_p", "maxfin", "twoemax", "half", "half_m", "half_p", "minsub", "zero"}
\* smallest number of kept bits in a region (sub_mid: the driver picks the binade)
KeepMax(f, reg) == CASE reg = "sub_hi" -> f.p - 1 [] reg = "sub_mid" -> f.p - 2 [] reg = "sub_lo" -> 1 [] OTHER -> f.p
TailOK(f, n, reg, t) ==
  LET room == n - KeepMax(f, reg)
  IN  CASE t = "exact" -> n = f.p
        [] t = "tie" -> room >= 1
        [] t \in {"tie_m", "tie_p"} -> room >= 2
        [] OTHER -> TRUE
EdgeOK(f, n, t) ==
  CASE t \in {"ovf", "ovf_m", "ovf_p"} -> n > f.p
    [] t \in {"maxfin", "twoemax", "minsub", "zero", "half"} -> n = f.p
    [] OTHER -> TRUE
M2FShapes(fmt) ==
  LET f == FmtOf(fmt)
  IN  {[fmt |-> fmt, n |-> n, sign |-> s, reg |-> reg, tail |-> t, par |-> par] :
         n \in NClass(f), s \in {0, 1}, reg \in Regions, t \in Tails, par \in {0, 1}}
      \cup {[fmt |-> fmt, n |-> n, sign |-> s, reg |-> "edge", tail |-> t, par |-> 0] :
         n \in NClass(f), s \in {0, 1}, t \in Edges}
M2FShapeOK(sh) ==
  LET f == FmtOf(sh.fmt)
  IN  IF sh.reg = "edge" THEN EdgeOK(f, sh.n, sh.tail) ELSE TailOK(f, sh.n, sh.reg, sh.tail)

\* backend shapes: function x flush mode x extra precision (bits, multiplier)
\* x call protocol x operand class
Flushes == {"unspec", "false", "true"}
Extras == {<<0, 0>>, <<1, 0>>, <<2, 0>>, <<3, 0>>, <<10, 0>>, <<64, 0>>, <<0, 1>>, <<0, 2>>, <<0, 10>>, <<5, 1>>}
Modes == {"scalar", "array", "call"}
UClasses == {"normal", "sub", "minsub", "minnormal", "max", "zero", "nzero", "inf", "ninf", "nan"}
BClasses == {"normal_normal", "near_cancel", "half_ulp", "normal_sub", "sub_sub", "under", "over", "zero_any"}
BEShapes(fmt) ==
  {[fmt |-> fmt, fn |-> fn, flush |-> fl, xp |-> e[1], xm |-> e[2], mode |-> m, cls |-> c] :
     fn \in Unary \cup Binary, fl \in Flushes, e \in Extras, m \in Modes, c \in UClasses \cup BClasses}
BEShapeOK(sh) == (sh.fn \in Unary /\ sh.cls \in UClasses) \/ (sh.fn \in Binary /\ sh.cls \in BClasses)

(*************************** steps *****************************************)
Next ==
  /\ ph = 0 /\ ph' = 1 /\ UNCHANGED <<kind, x>>
  /\ \/ kind = "val" /\ y' \in 1..(Pow2(ManBits) - 1) /\ z' \in {0, 1}
     \/ kind = "pair" /\ y' \in Pats /\ z' = 0
     \/ kind = "m2f" /\ y' \in {sh \in M2FShapes(x) : M2FShapeOK(sh)} /\ z' = 0
     \/ kind = "be" /\ y' \in {sh \in BEShapes(x) : BEShapeOK(sh)} /\ z' = 0
Spec == Init /\ [][Next]_vars

EmitShape == (ph = 1 /\ kind \in {"m2f", "be"}) => PrintT(<<"S", kind, y>>)

(*************************** U1: single values *****************************)
D == MpfVal(z, NFromInt(y), x)                  \* kind = "val": z sign, y mantissa, x exponent
R == RN(F, D)
AbsDiff(u, v) == DAbs(DSub(u, v))
IsVal == ph = 1 /\ kind = "val"

Nearest ==
  IsVal /\ IsFinite(F, R) =>
    \A nb \in {NextUp(F, R), NextDown(F, R)} :
       IsFinite(F, nb) =>
         /\ DLe(AbsDiff(Val(F, R), D), AbsDiff(Val(F, nb), D))
         /\ (nb # R /\ Val(F, nb) # Val(F, R) /\ DEq(AbsDiff(Val(F, R), D), AbsDiff(Val(F, nb), D)))
              => ~NIsOdd(Sig(F, R))                                   \* ties go to even
Bracket ==
  IsVal /\ IsFinite(F, R) =>
    /\ IsFinite(F, NextDown(F, R)) => DLt(Val(F, NextDown(F, R)), D)
    /\ IsFinite(F, NextUp(F, R)) => DLt(D, Val(F, NextUp(F, R)))
Monotone ==
  IsVal => LET d2 == MpfVal(z, NFromInt(y + 1), x)
               r2 == RN(F, d2)
           IN  IF z = 0 THEN ZLe(Ord(F, R), Ord(F, r2)) ELSE ZLe(Ord(F, r2), Ord(F, R))
Symmetric == IsVal => RN(F, DNeg(D)) = FNeg(F, R)
Thresholds ==
  IsVal => /\ IsInf(F, R) <=> Overflows(F, D)
           /\ IsZero(F, R) <=> DLe(DAbs(D), HalfMinSubD(F))
           /\ Tiny(F, D) => IsZero(F, R)
           /\ SignBit(F, R) = z
PrecRounding ==
  IsVal => \A q \in {F.p, F.p + 1, F.p + 2} :
             LET c == RNPrec(q, D)
             IN  /\ NBitLen(DCanon(c)[1][2]) <= q
                 /\ DSign(c) = DSign(D)
                 /\ NBitLen(NFromInt(y)) <= q => DEq(c, D)
                 \* |c - D| <= half a unit of the q-bit mantissa of D's binade
                 /\ DLe(DShl(AbsDiff(c, D), 1), PosD(NOne, DLead(D) - (q - 1)))
                 \* and a tie went to the even neighbour
                 /\ (DEq(DShl(AbsDiff(c, D), 1), PosD(NOne, DLead(D) - (q - 1)))
                       => ~NIsOdd(DAlign(DAbs(c), DLead(D) - (q - 1))[2]))
\* the ideal conversion: RN, and with an explicit flush request a signed zero where RN is subnormal
IdealM2F(fl) == IF fl /\ InSubRange(F, D) /\ ~IsNormal(F, R) THEN SignedZero(F, D[1][1]) ELSE R
Satisfiable == IsVal => \A fl \in BOOLEAN : M2FFails(F, D, IdealM2F(fl), fl) = {}
\* the package's algorithm passes, except for its known behaviour at the flush boundary (flushing is decided
\* after a p-bit rounding with unbounded exponent, not on the lattice)
CodePasses == IsVal => /\ M2FFails(F, D, CodeM2F(F, D, FALSE), FALSE) = {}
                       /\ M2FFails(F, D, CodeM2F(F, D, TRUE), TRUE) \subseteq {"flush_boundary_pbit"}
\* negative controls: ignoring an explicit flush request, and flushing before rounding, are rejected somewhere
FlushWitness ==
  (IsVal /\ InSubRange(F, D)) =>
    /\ (M2FFails(F, D, R, TRUE) # {} => PrintT(<<"W", "flush_ignored", y, x>>))
    /\ (IsNormal(F, R) /\ M2FFails(F, D, SignedZero(F, D[1][1]), TRUE) = {"normal_rn"} => PrintT(<<"W", "flush_before_rounding", y, x>>))
\* statistics only: canonical values where the two-step algorithm is not RN
DoubleRounded ==
  (IsVal /\ y % 2 = 1 /\ z = 0 /\ M2FNotRN(F, D, CodeM2F(F, D, FALSE))) => PrintT(<<"DR", y, x>>)

(*************************** U1: pairs *************************************)
A == NFromInt(x)
Bb == NFromInt(y)
IsPair == ph = 1 /\ kind = "pair" /\ IsFinite(F, A) /\ IsFinite(F, Bb)
Fns == IF y = 0 THEN Unary \cup Binary ELSE Binary      \* unary functions once per a
Ideal(fn) == LET d == BExact(F, fn, A, Bb)
             IN  IF DIsZero(d) THEN PosZero(F) ELSE RN(F, d)
\* with an explicit flush request: a signed zero where RN is subnormal
IdealFl(fn, fl) == LET d == BExact(F, fn, A, Bb)
                   IN  IF fl = "true" /\ InSubRange(F, d) /\ ~IsNormal(F, RN(F, d)) THEN SignedZero(F, d[1][1]) ELSE Ideal(fn)
TwoStep(fn, xtra, fl) == CodeM2F(F, RNPrec(F.p + xtra, BExact(F, fn, A, Bb)), fl)

IdealPasses ==
  IsPair => \A fn \in Fns, fl \in Flushes : BEFails(F, fn, A, Bb, fl, 2, IdealFl(fn, fl), TRUE) = {}
TwoStepClassified ==
  IsPair => \A fn \in Fns :
     /\ \A fl \in {"unspec", "false"} : BEFails(F, fn, A, Bb, fl, 0, TwoStep(fn, 0, FALSE), TRUE) = {}
     /\ \A xt \in {1, 2} :
           /\ BEFails(F, fn, A, Bb, "false", xt, TwoStep(fn, xt, FALSE), TRUE) \subseteq {"backend_double_rounding"}
           /\ BEFails(F, fn, A, Bb, "false", xt, TwoStep(fn, xt, FALSE), FALSE) = {}
     \* a backend that flushes although flushing was not requested / was refused
     /\ \A fl \in {"unspec", "false"} :
           BEFails(F, fn, A, Bb, fl, 0, TwoStep(fn, 0, TRUE), TRUE) \subseteq {"backend_subnormal_flushed"}
     \* an explicit request: the package's flushing passes (up to its known boundary behaviour); ignoring the
     \* request is accepted only where nothing is demanded (a subnormal input) or nothing is flushed
     /\ BEFails(F, fn, A, Bb, "true", 0, TwoStep(fn, 0, TRUE), TRUE) \subseteq {"backend_flush_boundary_pbit"}
     /\ BEFails(F, fn, A, Bb, "true", 0, TwoStep(fn, 0, FALSE), TRUE) \subseteq {"backend_flush_not_honoured"}
Witnesses ==
  IsPair =>
    /\ (BEFails(F, "add", A, Bb, "false", 1, TwoStep("add", 1, FALSE), TRUE) # {} => PrintT(<<"W", "dr_add", x, y>>))
    /\ (BEFails(F, "mul", A, Bb, "false", 1, TwoStep("mul", 1, FALSE), TRUE) # {} => PrintT(<<"W", "dr_mul", x, y>>))
    /\ (BEFails(F, "id", A, Bb, "unspec", 0, TwoStep("id", 0, TRUE), TRUE) # {} /\ y = 0 => PrintT(<<"W", "flush_id", x, y>>))
    /\ (BEFails(F, "mul", A, Bb, "unspec", 0, TwoStep("mul", 0, TRUE), TRUE) # {} => PrintT(<<"W", "flush_mul", x, y>>))

\* RN of a representable value is itself (zero keeps the requested sign)
ASSUME \A n \in Pats : LET b == NFromInt(n)
                       IN  IsFinite(F, b) => (IF IsZero(F, b) THEN RN(F, Val(F, b)) = PosZero(F)
                                              ELSE RN(F, Val(F, b)) = b)
\* the overflow threshold is the midpoint of the largest finite value and 2^(emax+1)
ASSUME DEq(DShl(OverflowD(F), 1), DAdd(LargestD(F), PosD(NOne, F.emax + 1)))
ASSUME DEq(Val(F, LargestMag(F)), LargestD(F))
ASSUME DEq(Val(F, MinNormalMag(F)), MinNormalD(F)) /\ DEq(Val(F, NOne), MinSubD(F))
=============================================================================
