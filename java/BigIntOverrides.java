// Accelerator only: java.math.BigInteger implementations of the OVERRIDABLE
// primitives of spec/BigInt.tla.  The TLA+ definitions are the authority;
// harness/selftest.py runs the same TLC grid with and without these overrides
// and requires identical output.  Set FA_VERIF_NO_OVERRIDES=1 to disable.
import java.math.BigInteger;
import tlc2.overrides.TLAPlusOperator;
import tlc2.value.impl.IntValue;
import tlc2.value.impl.TupleValue;
import tlc2.value.impl.Value;

public class BigIntOverrides {
    static final int LB = 15;
    static final int MASK = (1 << LB) - 1;

    static BigInteger toBig(Value v) {
        TupleValue t = (TupleValue) v.toTuple();
        Value[] e = t.elems;
        if (e.length == 0) return BigInteger.ZERO;
        // little-endian limbs -> big-endian magnitude bytes via shifting
        BigInteger r = BigInteger.ZERO;
        long acc = 0; int nb = 0;
        // assemble 60 bits (4 limbs) at a time from the top
        for (int i = e.length - 1; i >= 0; i--) {
            acc = (acc << LB) | ((IntValue) e[i]).val;
            nb += LB;
            if (nb == 60) { r = r.shiftLeft(60).or(BigInteger.valueOf(acc)); acc = 0; nb = 0; }
        }
        if (nb > 0) r = r.shiftLeft(nb).or(BigInteger.valueOf(acc));
        return r;
    }

    static Value fromBig(BigInteger b) {
        if (b.signum() == 0) return TupleValue.EmptyTuple;
        int n = (b.bitLength() + LB - 1) / LB;
        Value[] e = new Value[n];
        for (int i = 0; i < n; i++) {
            int limb = 0;
            int base = i * LB;
            // extract 15 bits
            limb = b.shiftRight(base).intValue() & MASK;
            e[i] = IntValue.gen(limb);
        }
        return new TupleValue(e);
    }

    static int toInt(Value v) { return ((IntValue) v).val; }

    @TLAPlusOperator(identifier = "NCmp", module = "BigInt", warn = false)
    public static Value ncmp(Value a, Value b) { return IntValue.gen(Integer.signum(toBig(a).compareTo(toBig(b)))); }

    @TLAPlusOperator(identifier = "NAdd", module = "BigInt", warn = false)
    public static Value nadd(Value a, Value b) { return fromBig(toBig(a).add(toBig(b))); }

    @TLAPlusOperator(identifier = "NSub", module = "BigInt", warn = false)
    public static Value nsub(Value a, Value b) {
        BigInteger r = toBig(a).subtract(toBig(b));
        if (r.signum() < 0) throw new RuntimeException("BigInt!NSub: negative result");
        return fromBig(r);
    }

    @TLAPlusOperator(identifier = "NMul", module = "BigInt", warn = false)
    public static Value nmul(Value a, Value b) { return fromBig(toBig(a).multiply(toBig(b))); }

    @TLAPlusOperator(identifier = "NShl", module = "BigInt", warn = false)
    public static Value nshl(Value a, Value k) { return fromBig(toBig(a).shiftLeft(toInt(k))); }

    @TLAPlusOperator(identifier = "NShr", module = "BigInt", warn = false)
    public static Value nshr(Value a, Value k) { return fromBig(toBig(a).shiftRight(toInt(k))); }

    @TLAPlusOperator(identifier = "NBitLen", module = "BigInt", warn = false)
    public static Value nbitlen(Value a) { return IntValue.gen(toBig(a).bitLength()); }

    @TLAPlusOperator(identifier = "NLow", module = "BigInt", warn = false)
    public static Value nlow(Value a, Value k) {
        int kk = toInt(k);
        return fromBig(toBig(a).and(BigInteger.ONE.shiftLeft(kk).subtract(BigInteger.ONE)));
    }

    @TLAPlusOperator(identifier = "NDivMod", module = "BigInt", warn = false)
    public static Value ndivmod(Value a, Value b) {
        BigInteger[] qr = toBig(a).divideAndRemainder(toBig(b));
        return new TupleValue(new Value[] { fromBig(qr[0]), fromBig(qr[1]) });
    }

    @TLAPlusOperator(identifier = "NSqrt", module = "BigInt", warn = false)
    public static Value nsqrt(Value a) { return fromBig(toBig(a).sqrt()); }

    @TLAPlusOperator(identifier = "NGcd", module = "BigInt", warn = false)
    public static Value ngcd(Value a, Value b) { return fromBig(toBig(a).gcd(toBig(b))); }

    @TLAPlusOperator(identifier = "NTrailingZeros", module = "BigInt", warn = false)
    public static Value ntz(Value a) {
        BigInteger b = toBig(a);
        return IntValue.gen(b.signum() == 0 ? 0 : b.getLowestSetBit());
    }
}
