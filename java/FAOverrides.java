import tlc2.overrides.ITLCOverrides;
public class FAOverrides implements ITLCOverrides {
    @SuppressWarnings("rawtypes")
    @Override
    public Class[] get() { return new Class[] { BigIntOverrides.class }; }
}
