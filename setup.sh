#!/bin/sh
# Build harness-owned artefacts from files on disk only (offline), then self-test the machinery.
set -e
HERE="$(cd "$(dirname "$0")" && pwd)"
cd "$HERE"
export PATH="/venv/bin:$PATH"
mkdir -p .build/java evidence replays
javac -cp /opt/veriftools/tla/tla2tools.jar -d .build/java java/*.java || echo "setup: javac failed; checks fall back to the pure TLA+ definitions"
gcc -O1 -shared -fPIC -o .build/libfaverif.so csrc/faverif.c
PYTHONDONTWRITEBYTECODE=1 /venv/bin/python -m harness.selftest --quick
